package bbolt

// D-OPTIONS (C13): one symbolic history under two option assignments gives the same results, the
// same content after every transaction and reopen, exact accounting under both, and the same set of
// free pages whether the free list was persisted or rebuilt by scanning.

import (
	zz "go.etcd.io/bbolt/internal/zzverif"
)

type zzPlanOp struct {
	kind int
	key  []byte
	vlen int
}

func zzVariant(c zzCfg, v int) (zzCfg, *Options) {
	switch v {
	case 1:
		c.hashmap = true
	case 2:
		c.noFLSync = true
	case 3:
		c.pageSize = 4096
	case 4:
		c.initMmap = 1 << 20
	case 5:
		c.noGrowSync = true
	}
	o := c.options()
	switch v {
	case 6:
		o.Mlock = true
	case 7:
		// StrictMode is a DB field, set after Open by the caller
	}
	return c, o
}

// zzRunPlan executes the plan on a fresh database under variant v (and, at the reopen, variant v2);
// returns the error codes of the operations, the dump after each transaction and the free ids at the end.
func zzRunPlan(name string, base zzCfg, v, v2 int, plan [][]zzPlanOp) (errs []bool, dumps [][]zzKV, free []uint64) {
	path := zz.TempPath(name)
	c, o := zzVariant(base, v)
	db, err := Open(path, 0600, o)
	zz.Assert(err == nil, "options/open")
	if v == 7 {
		db.StrictMode = true
	}
	zzSetup(db, 1)
	// a nested bucket of about 450 bytes: stored inline at page size 4096, on its own page at 1024
	err = db.Update(func(tx *Tx) error {
		mid, err := tx.Bucket([]byte("b")).CreateBucket([]byte("mid"))
		if err != nil {
			return err
		}
		if err := mid.Put([]byte("m1"), zzVal(200, 'm')); err != nil {
			return err
		}
		return mid.Put([]byte("m2"), zzVal(200, 'n'))
	})
	zz.Assert(err == nil, "options/setup-mid")
	wantSeqB, wantSeqMid := uint64(0), uint64(0)
	for t, ops := range plan {
		err := db.Update(func(tx *Tx) error {
			b := tx.Bucket([]byte("b"))
			for _, op := range ops {
				var e error
				switch op.kind {
				case 0:
					e = b.Put(op.key, zzVal(op.vlen, 'P'))
				case 1:
					e = b.Delete(op.key)
				case 2:
					_, e = b.CreateBucketIfNotExists(op.key)
				case 3:
					var sq uint64
					sq, e = b.NextSequence()
					wantSeqB++
					zz.Assert(e == nil && sq == wantSeqB, "options/next-sequence-counts-up")
				case 4:
					// a transaction whose only change to the nested bucket is its sequence
					var sq uint64
					sq, e = b.Bucket([]byte("mid")).NextSequence()
					wantSeqMid++
					zz.Assert(e == nil && sq == wantSeqMid, "options/next-sequence-counts-up")
				}
				errs = append(errs, e == nil)
			}
			return nil
		})
		zz.Assert(err == nil, "options/update")
		dumps = append(dumps, zzViewDump(db, "options/dump"))
		_ = db.View(func(tx *Tx) error {
			b := tx.Bucket([]byte("b"))
			zz.Assert(b.Sequence() == wantSeqB && b.Bucket([]byte("mid")).Sequence() == wantSeqMid, "options/sequences-are-the-number-of-NextSequence-calls")
			return nil
		})
		if t == len(plan)-1 {
			zzCheckAll(db, path, c, "options/accounting")
		}
		if t == 0 {
			// reopen, possibly with a different option assignment for the same file
			zz.Assert(db.Close() == nil, "options/close")
			c2, o2 := zzVariant(base, v2)
			c2.pageSize = c.pageSize // the page size is a property of the file
			o2.PageSize = c.pageSize
			if rp := zz.Param("reopenps", 0); rp != 0 && v != 0 {
				o2.PageSize = rp // an existing file keeps its page size whatever the option says
			}
			db, err = Open(path, 0600, o2)
			if err == nil {
				zz.Assert(db.pageSize == c.pageSize, "options/reopen-keeps-the-files-page-size")
			}
			zz.Assert(err == nil, "options/reopen")
			c = c2
			dumps = append(dumps, zzViewDump(db, "options/dump-after-reopen"))
			zzCheckAll(db, path, c, "options/accounting-after-reopen")
		}
	}
	zz.Assert(db.Close() == nil, "options/close2")
	// final: reopen read-only with and without preloading, content identical
	for _, pre := range []bool{false, true} {
		ro := c.options()
		ro.PageSize = 0
		ro.ReadOnly = true
		ro.PreLoadFreelist = pre
		r, err := Open(path, 0400, ro)
		zz.Assert(err == nil, "options/open-read-only")
		zz.Assert(zzSameKVs(zzViewDump(r, "options/ro-dump"), dumps[len(dumps)-1]), "options/read-only-open-same-content")
		if pre {
			free = zzFreeAndPending(r)
		}
		zz.Assert(r.Close() == nil, "options/close-ro")
	}
	return
}

func HarnessOptions() {
	base := zzConfig()
	zzSetupValSize = 300
	// a symbolic plan: two transactions of `slots` operations each
	slots := zz.Param("slots", 1)
	var plan [][]zzPlanOp
	for t := 0; t < 2; t++ {
		var ops []zzPlanOp
		for s := 0; s < slots; s++ {
			var op zzPlanOp
			if t == 0 {
				op = zzPlanOp{kind: zz.Choose(3), key: zzSymKey("optk")}
				if op.kind == 0 {
					op.vlen = []int{1, 300, 1100, 5000}[zz.Choose(4)]
				}
			} else {
				// second transaction: concrete variants (delete a setup key, overflow value, sequence)
				op = []zzPlanOp{{kind: 1, key: []byte("k08")}, {kind: 0, key: []byte("ovx"), vlen: 2100}, {kind: 3}, {kind: 4}}[zz.Choose(4)]
			}
			ops = append(ops, op)
		}
		plan = append(plan, ops)
	}
	va := 0
	vb := zz.Param("variant", 1)
	vb2 := vb
	if zz.Param("switch", 0) == 1 {
		vb2 = 0 // e.g. written with NoFreelistSync, reopened in sync mode (free list is flushed on open)
	}
	ea, da, _ := zzRunPlan("optA.db", base, va, va, plan)
	eb, db, _ := zzRunPlan("optB.db", base, vb, vb2, plan)
	zz.Assert(len(ea) == len(eb), "options/same-number-of-results")
	for i := range ea {
		if i < len(eb) {
			zz.Assert(ea[i] == eb[i], "options/same-api-results")
		}
	}
	for i := range da {
		if i < len(db) {
			zz.Assert(zzSameKVs(da[i], db[i]), "options/same-content-after-every-transaction")
		}
	}
	zz.Reach("done")
}
