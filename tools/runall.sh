#!/bin/bash
# runs every registered check of the given tier sequentially; prints id, exit code, seconds
TIER=${1:-quick}
cd /verif
for id in $(python3 -c "import json;print(' '.join(c['property_id'] for c in json.load(open('MANIFEST.json'))['checks']))"); do
  t0=$(date +%s)
  ./check $id $TIER > /tmp/runall_$id.log 2>&1
  rc=$?
  echo "$id rc=$rc $(( $(date +%s) - t0 ))s $(grep -c KNOWN-FINDING /tmp/runall_$id.log) known; $(tail -1 /tmp/runall_$id.log | cut -c1-90)"
done
