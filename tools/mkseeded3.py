#!/usr/bin/env python3
"""Round-3 seeds: assembles /verif/seeded/<ID>-3/ from seeded/_incoming/<ID>-m3 (agent deliverables),
/tmp/seedv3-<ID>/result.txt (tools/verify_seed.sh) and the detection runs listed below, and appends the
rows to seeded/MATRIX.md. A seed whose re-verification is incomplete is written with confirmed=false and
is NOT counted in DESIGN.md until confirmed."""
import json, os, re, shutil, sys
V = '/verif'
FLAKY = 'TestDB_Open_InitialMmapSize'
DET = {
 'C11': {'first': {'check': 'C11', 'exit': 1, 'assertions': ['damage/open-succeeds-with-one-damaged-meta']}, 'after': None},
 'C18': {'first': {'check': 'C18', 'exit': 1, 'assertions': ['maxk/file-never-longer-than-MaxSize', 'sweep/create/file-within-limit', 'sweep/second/file-within-limit', 'sweep/third/file-within-limit']}, 'after': None},
 'C19': {'first': {'check': 'C19', 'exit': 0, 'assertions': []},
         'after': {'check': 'C19', 'exit': 1, 'assertions': ['corrupt/check-reports-structural-corruption'],
                   'strengthening': "corruption class 'high-water mark raised' in D-CORRUPT and D-CORRUPT-DEEP"}},
}
rows = []
for pid in ('C11', 'C18', 'C19'):
    inc = f'{V}/seeded/_incoming/{pid}-m3'
    res = f'/tmp/seedv3-{pid}/result.txt'
    d = {}
    fails = []
    if os.path.exists(res):
        txt = open(res).read()
        d = dict(re.findall(r'(\w+) rc=(\d+)', txt))
        fails = re.findall(r'^--- FAIL: (\S+)', txt, re.M)
    ok_demo = d.get('demo_pristine') == '0' and d.get('demo_patched') not in (None, '0')
    suite_done = 'suite' in d
    suite_ok = d.get('suite') == '0' or (suite_done and fails and all(f.startswith(FLAKY) for f in fails))
    confirmed = d.get('apply') == '0' and d.get('build') == '0' and ok_demo and bool(suite_ok)
    out = f'{V}/seeded/{pid}-3'
    shutil.rmtree(out, ignore_errors=True)
    os.makedirs(out)
    shutil.copy(f'{inc}/patch.diff', out)
    shutil.copy(f'{inc}/zz_demo_test.go', out)
    meta = json.load(open(f'{inc}/meta.json'))
    meta['round'] = 3
    meta['files'] = re.findall(r'^diff --git a/(\S+)', open(f'{inc}/patch.diff').read(), re.M)
    meta['verified_by_me'] = {
        'where': 'scratch git worktree of /repo HEAD under /tmp (removed afterwards), tools/verify_seed.sh',
        'patch_applies_and_builds': d.get('apply') == '0' and d.get('build') == '0',
        'demo_on_unchanged_tree': 'passes' if d.get('demo_pristine') == '0' else 'FAILS/not run',
        'demo_with_patch': 'fails' if d.get('demo_patched') not in (None, '0') else 'passes/not run',
        'existing_suite_with_patch': ('go test -vet=off -count=1 . ./internal/... ./cmd/... : ' + ('all ok' if d.get('suite') == '0' else ('all ok except ' + ', '.join(sorted(set(fails))) + ' (baseline-flaky)' if suite_ok else 'NOT ok: ' + ' '.join(fails)))) if suite_done else 'full suite run NOT finished when the session ended (test binaries of all packages build; the agent ran the property-related slice and ./internal/... [./cmd/...] with the patch: ok)',
        'confirmed': confirmed,
    }
    runs = [dict(DET[pid]['first'], when='checks as committed before round 3')]
    if DET[pid]['after']:
        runs.append(dict(DET[pid]['after'], when='after strengthening'))
    meta['runs_of_my_checks'] = runs
    json.dump(meta, open(f'{out}/meta.json', 'w'), indent=1)
    det = DET[pid]['after'] or DET[pid]['first']
    cell = f"{pid}: " + ', '.join(det['assertions'][:3])
    if DET[pid]['after']:
        cell += f" (after strengthening: {DET[pid]['after']['strengthening']})"
    summ = ' '.join(meta['summary'].split())[:170].replace('|', '/')
    rows.append(f"| {pid}-3 | {'yes' if confirmed else 'demo yes, full suite run unfinished'} | {summ} | {cell} |")
mp = f'{V}/seeded/MATRIX.md'
lines = [l for l in open(mp).read().rstrip('\n').split('\n') if not re.match(r'\| C(11|18|19)-3 ', l)]
open(mp, 'w').write('\n'.join(lines + rows) + '\n')
print('\n'.join(rows))
