package bbolt

// Shared harness pieces for the DB-level checks:
//   R  – an independent, literal-offset decoder of the published v2 file format
//        (nothing from internal/common is used),
//   D  – a dump of a transaction's content through the real public API,
//   accounting / comparison helpers.

import (
	"bytes"

	"go.etcd.io/bbolt/internal/common"
	zz "go.etcd.io/bbolt/internal/zzverif"
)

// ---------------------------------------------------------------- R: independent decoder

func zzU16(b []byte, o int) uint64 { return uint64(b[o]) | uint64(b[o+1])<<8 }
func zzU32(b []byte, o int) uint64 {
	return uint64(b[o]) | uint64(b[o+1])<<8 | uint64(b[o+2])<<16 | uint64(b[o+3])<<24
}
func zzU64(b []byte, o int) uint64 { return zzU32(b, o) | zzU32(b, o+4)<<32 }

type zzMeta struct {
	ok                             bool
	pageSize, flags                uint64
	root, seq, freelist, hwm, txid uint64
	checksum                       uint64
}

type zzKV struct {
	depth  int
	bucket bool
	seq    uint64
	key    []byte
	val    []byte
}

type zzImage struct {
	b       []byte
	ps      int
	meta    [2]zzMeta
	cur     int // index of the chosen meta, -1 if none valid
	m       zzMeta
	refs    map[uint64]int // page id -> number of references from the tree (incl. overflow pages)
	flTotal int            // pages occupied by the freelist page
	free    []uint64       // ids listed in the freelist page
	hasFL   bool
	kvs     []zzKV
	errs    []string
	pagesOK bool
	collect bool // true: key-order conditions are collected into ordered instead of asserted
	ordered bool
}

// order records a key-order condition (possibly symbolic).
func (im *zzImage) order(c bool, id string) {
	if im.collect {
		im.ordered = zz.And(im.ordered, c)
		return
	}
	zz.Assert(c, id)
}

func zzFNV64a(b []byte) uint64 {
	h := uint64(14695981039346656037)
	for _, c := range b {
		h ^= uint64(c)
		h *= 1099511628211
	}
	return h
}

func zzReadMeta(b []byte, off int) zzMeta {
	var m zzMeta
	if off+16+64 > len(b) {
		return m
	}
	o := off + 16
	magic, version := zzU32(b, o), zzU32(b, o+4)
	m.pageSize, m.flags = zzU32(b, o+8), zzU32(b, o+12)
	m.root, m.seq = zzU64(b, o+16), zzU64(b, o+24)
	m.freelist, m.hwm, m.txid, m.checksum = zzU64(b, o+32), zzU64(b, o+40), zzU64(b, o+48), zzU64(b, o+56)
	m.ok = magic == 0xED0CDAED && version == 2 && m.checksum == zzFNV64a(b[o:o+56])
	return m
}

const zzNoFreelist = 0xffffffffffffffff

func (im *zzImage) err(s string) { im.errs = append(im.errs, s) }

// zzDecode reads a whole file image with the given page size.
func zzDecode(b []byte, ps int) *zzImage { return zzDecodeMode(b, ps, false) }

func zzDecodeMode(b []byte, ps int, collect bool) *zzImage {
	im := &zzImage{b: b, ps: ps, cur: -1, refs: map[uint64]int{}, collect: collect, ordered: true}
	im.meta[0] = zzReadMeta(b, 0)
	im.meta[1] = zzReadMeta(b, ps)
	switch {
	case im.meta[0].ok && im.meta[1].ok:
		if im.meta[1].txid > im.meta[0].txid {
			im.cur = 1
		} else {
			im.cur = 0
		}
	case im.meta[0].ok:
		im.cur = 0
	case im.meta[1].ok:
		im.cur = 1
	default:
		im.err("no valid meta page")
		return im
	}
	im.m = im.meta[im.cur]
	if int(im.m.pageSize) != ps {
		im.err("meta page size differs from configured page size")
	}
	if uint64(len(b)) < im.m.hwm*uint64(ps) {
		im.err("file shorter than high-water mark")
		return im
	}
	if im.m.root >= im.m.hwm {
		im.err("root >= hwm")
		return im
	}
	// freelist page
	if im.m.freelist != zzNoFreelist {
		im.hasFL = true
		if im.m.freelist >= im.m.hwm || im.m.freelist < 2 {
			im.err("freelist page id out of range")
			return im
		}
		o := int(im.m.freelist) * ps
		if zzU16(b, o+8) != 0x10 {
			im.err("freelist page has wrong flags")
		}
		if zzU64(b, o) != im.m.freelist {
			im.err("freelist page id field mismatch")
		}
		cnt := int(zzU16(b, o+10))
		ov := int(zzU32(b, o+12))
		im.flTotal = ov + 1
		idx := 0
		if cnt == 0xFFFF {
			cnt = int(zzU64(b, o+16))
			idx = 1
		}
		if 16+(cnt+idx)*8 > (ov+1)*ps {
			im.err("freelist ids exceed the freelist page extent")
			return im
		}
		for i := 0; i < cnt; i++ {
			im.free = append(im.free, zzU64(b, o+16+(idx+i)*8))
		}
	}
	im.walkBucket(im.m.root, im.m.seq, 0)
	im.pagesOK = len(im.errs) == 0
	return im
}

// walkBucket decodes the tree rooted at page pg (non-inline bucket).
func (im *zzImage) walkBucket(pg uint64, seq uint64, depth int) {
	im.walkPage(pg, depth, nil, nil, true)
}

func (im *zzImage) page(pg uint64) (off int, flags, count, overflow int, ok bool) {
	if pg >= im.m.hwm || pg < 2 {
		im.err("page id out of range in tree")
		return 0, 0, 0, 0, false
	}
	off = int(pg) * im.ps
	if zzU64(im.b, off) != pg {
		im.err("page id field mismatch")
	}
	flags, count, overflow = int(zzU16(im.b, off+8)), int(zzU16(im.b, off+10)), int(zzU32(im.b, off+12))
	if pg+uint64(overflow) >= im.m.hwm {
		im.err("overflow beyond hwm")
		return off, flags, count, overflow, false
	}
	return off, flags, count, overflow, true
}

// walkPage visits a tree page; lo/hi are the separator bounds from the parent (lo inclusive).
func (im *zzImage) walkPage(pg uint64, depth int, lo, hi []byte, isRoot bool) {
	off, flags, count, overflow, ok := im.page(pg)
	if !ok {
		return
	}
	for i := 0; i <= overflow; i++ {
		im.refs[pg+uint64(i)]++
	}
	extent := (overflow + 1) * im.ps
	switch flags {
	case 0x01: // branch
		if count == 0 {
			im.err("empty branch page")
		}
		var prevKey []byte
		for i := 0; i < count; i++ {
			e := off + 16 + i*16
			pos, ksize, child := int(zzU32(im.b, e)), int(zzU32(im.b, e+4)), zzU64(im.b, e+8)
			ko := e - off + pos
			if ko < 16+count*16 || ko+ksize > extent {
				im.err("branch element outside its page")
				return
			}
			key := im.b[off+ko : off+ko+ksize]
			if i > 0 {
				im.order(bytes.Compare(prevKey, key) < 0, "R/branch-keys-ordered")
			}
			if i == 0 && lo != nil {
				im.order(bytes.Compare(lo, key) <= 0, "R/branch-first-key>=parent-separator")
			}
			prevKey = key
			var nhi []byte = hi
			if i+1 < count {
				e2 := off + 16 + (i+1)*16
				p2, k2 := int(zzU32(im.b, e2)), int(zzU32(im.b, e2+4))
				if e2-off+p2+k2 <= extent {
					nhi = im.b[e2+p2 : e2+p2+k2]
				}
			}
			im.walkPage(child, depth, key, nhi, false)
		}
	case 0x02: // leaf
		im.walkLeaf(im.b[off:off+extent], count, depth, lo, hi)
	default:
		im.err("tree page with invalid flags")
	}
}

// walkLeaf decodes leaf elements from a page image (a real page or an inline page).
func (im *zzImage) walkLeaf(p []byte, count, depth int, lo, hi []byte) {
	var prevKey []byte
	for i := 0; i < count; i++ {
		e := 16 + i*16
		if e+16 > len(p) {
			im.err("leaf element header outside its page")
			return
		}
		fl, pos, ksize, vsize := zzU32(p, e), int(zzU32(p, e+4)), int(zzU32(p, e+8)), int(zzU32(p, e+12))
		ko := e + pos
		if ko < 16+count*16 || ko+ksize+vsize > len(p) {
			im.err("leaf element outside its page")
			return
		}
		key := p[ko : ko+ksize]
		val := p[ko+ksize : ko+ksize+vsize]
		if i > 0 {
			im.order(bytes.Compare(prevKey, key) < 0, "R/leaf-keys-ordered")
		}
		if i == 0 && lo != nil {
			im.order(bytes.Compare(lo, key) <= 0, "R/leaf-first-key>=parent-separator")
		}
		if i == count-1 && hi != nil {
			im.order(bytes.Compare(key, hi) < 0, "R/leaf-last-key<next-separator")
		}
		prevKey = key
		if fl&0x01 != 0 { // nested bucket
			if vsize < 16 {
				im.err("bucket value shorter than its header")
				return
			}
			root, seq := zzU64(val, 0), zzU64(val, 8)
			im.kvs = append(im.kvs, zzKV{depth: depth, bucket: true, seq: seq, key: key})
			if root == 0 {
				// inline bucket: a leaf page image follows the header
				ip := val[16:]
				if len(ip) < 16 {
					im.err("inline bucket without page header")
					return
				}
				if zzU16(ip, 8) != 0x02 {
					im.err("inline bucket page is not a leaf")
					return
				}
				im.walkLeaf(ip, int(zzU16(ip, 10)), depth+1, nil, nil)
			} else {
				im.walkPage(root, depth+1, nil, nil, true)
			}
			im.kvs = append(im.kvs, zzKV{depth: depth, bucket: true, seq: ^uint64(0)}) // end marker
		} else {
			im.kvs = append(im.kvs, zzKV{depth: depth, key: key, val: val})
		}
	}
}

// zzAccount asserts the page accounting of C07 on a decoded image. extraFree: ids to treat as
// listed free when the image has no freelist page (no-sync mode: pass the in-memory free+pending).
func zzAccount(im *zzImage, id string, extraFree []uint64) {
	zzAccountKnown(im, id, extraFree, false, "")
}

// zzAccountKnown: as zzAccount; the "no page leaked" clause is asserted unless the known-finding
// trigger holds (only honoured when key is listed as known in known_findings.txt).
func zzAccountKnown(im *zzImage, id string, extraFree []uint64, trigger bool, key string) {
	zzAccountKnown2(im, id, extraFree, false, trigger, key)
}

// zzAccountKnown2: with memAuthoritative the given in-memory list (free+pending of the open handle) is
// the free list that is accounted, even if the meta still references a freelist page written under an
// earlier freelist-sync setting (that page then counts as in use, as it is until the next commit).
func zzAccountKnown2(im *zzImage, id string, extraFree []uint64, memAuthoritative bool, trigger bool, key string) {
	zz.Assertf(len(im.errs) == 0, id+"/R-structure", zzJoin(im.errs))
	if im.cur < 0 {
		return
	}
	free := im.free
	if !im.hasFL || memAuthoritative {
		free = extraFree
	}
	owner := map[uint64]int{}
	for pg, n := range im.refs {
		zz.Assert(n == 1, id+"/page-referenced-exactly-once")
		owner[pg] += n
	}
	if im.hasFL {
		for i := 0; i < im.flTotal; i++ {
			owner[im.m.freelist+uint64(i)]++
		}
	}
	seen := map[uint64]bool{}
	for _, f := range free {
		zz.Assert(f >= 2 && f < im.m.hwm, id+"/free-id-in-range")
		zz.Assert(!seen[f], id+"/free-id-listed-once")
		seen[f] = true
		owner[f]++
	}
	for pg := uint64(2); pg < im.m.hwm; pg++ {
		n := owner[pg]
		if key != "" {
			zz.AssertUnless(n >= 1, trigger, id+"/no-page-leaked", key)
		} else {
			zz.Assertf(n >= 1, id+"/no-page-leaked", "page unreachable and not free")
		}
		zz.Assertf(n <= 1, id+"/no-page-both-free-and-used", "page counted more than once")
	}
}

func zzJoin(ss []string) string {
	r := ""
	for i, s := range ss {
		if i > 0 {
			r += "; "
		}
		r += s
	}
	return r
}

// ---------------------------------------------------------------- D: dump through the real API

// zzDumpSoft: a dump of a snapshot that a listed known finding may already have damaged records
// structural surprises in zzDumpBroken instead of asserting them (the caller asserts under the finding's
// trigger).
var zzDumpSoft, zzDumpBroken bool

func zzDumpBucket(b *Bucket, depth int, out *[]zzKV) {
	c := b.Cursor()
	n := 0
	for k, v := c.First(); k != nil; k, v = c.Next() {
		n++
		if n > 10000 {
			if zzDumpSoft {
				zzDumpBroken = true
				return
			}
			zz.Assert(false, "D/cursor-terminates")
			return
		}
		if v == nil {
			nb := b.Bucket(k)
			if nb == nil && zzDumpSoft {
				zzDumpBroken = true
				continue
			}
			zz.Assert(nb != nil, "D/nested-bucket-opens")
			if nb == nil {
				continue
			}
			*out = append(*out, zzKV{depth: depth, bucket: true, seq: nb.Sequence(), key: zzClone(k)})
			zzDumpBucket(nb, depth+1, out)
			*out = append(*out, zzKV{depth: depth, bucket: true, seq: ^uint64(0)})
		} else {
			*out = append(*out, zzKV{depth: depth, key: zzClone(k), val: zzClone(v)})
		}
	}
}

func zzClone(b []byte) []byte {
	c := make([]byte, len(b))
	copy(c, b)
	return c
}

// zzDump returns the whole logical content visible to tx, in API iteration order.
func zzDump(tx *Tx) []zzKV {
	var out []zzKV
	zzDumpBucket(&tx.root, 0, &out)
	return out
}

// zzSameKVs: element-wise equality as one (possibly symbolic) boolean; lengths are concrete.
func zzSameKVs(a, b []zzKV) bool {
	if len(a) != len(b) {
		return false
	}
	r := true
	for i := range a {
		x, y := a[i], b[i]
		if x.depth != y.depth || x.bucket != y.bucket || x.seq != y.seq || len(x.key) != len(y.key) || len(x.val) != len(y.val) {
			return false
		}
		r = zz.And(r, bytes.Equal(x.key, y.key))
		r = zz.And(r, bytes.Equal(x.val, y.val))
	}
	return r
}

// zzFreeAndPending returns the in-memory free ids and pending ids of an open DB (sorted).
func zzFreeAndPending(db *DB) []uint64 {
	ids := make([]common.Pgid, db.freelist.Count())
	db.freelist.Copyall(ids)
	out := make([]uint64, len(ids))
	for i, id := range ids {
		out[i] = uint64(id)
	}
	return out
}

// zzConsistent: the independent decoder's verdict on an image as one boolean: structure decodable,
// every page below the high-water mark exactly one of {tree page (once), freelist page, listed free
// (once)}, keys ordered within pages and against parent separators, page types valid.
func zzConsistent(im *zzImage) bool {
	if len(im.errs) != 0 || im.cur < 0 {
		return false
	}
	owner := map[uint64]int{}
	for pg, n := range im.refs {
		if n != 1 {
			return false
		}
		owner[pg] += n
	}
	if im.hasFL {
		for i := 0; i < im.flTotal; i++ {
			owner[im.m.freelist+uint64(i)]++
		}
	}
	seen := map[uint64]bool{}
	for _, f := range im.free {
		if f < 2 || f >= im.m.hwm || seen[f] {
			return false
		}
		seen[f] = true
		owner[f]++
	}
	for pg := uint64(2); pg < im.m.hwm; pg++ {
		if owner[pg] != 1 {
			return false
		}
	}
	return im.ordered
}
