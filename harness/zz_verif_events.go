package bbolt

// D-EVENTS: event programs over {open reader, close reader, writer commit, writer rollback, failed
// commit}. Serves C06 (no visible page is written), C02 (reader snapshots are immutable), C10 (freed
// pages are reclaimed as soon as no reader needs them), C03a (ids and visibility order).

import (
	"errors"

	fl "go.etcd.io/bbolt/internal/freelist"
	zz "go.etcd.io/bbolt/internal/zzverif"
)

const (
	zzFocusWrites   = 1 // C06
	zzFocusSnapshot = 2 // C02
	zzFocusReclaim  = 4 // C10
	zzFocusSerial   = 8 // C03
)

type zzReader struct {
	tx   *Tx
	dump []zzKV
	m    zzMeta
	at   int // number of commits finished before it began
}

func zzMetaOf(tx *Tx) zzMeta {
	return zzMeta{ok: true, pageSize: uint64(tx.meta.PageSize()), root: uint64(tx.meta.RootBucket().RootPage()), seq: tx.meta.RootBucket().InSequence(),
		freelist: uint64(tx.meta.Freelist()), hwm: uint64(tx.meta.Pgid()), txid: uint64(tx.meta.Txid())}
}

// zzPagesOf decodes the pages (tree, overflow, freelist page) of the state described by m.
func zzPagesOf(b []byte, ps int, m zzMeta) map[uint64]bool {
	im := &zzImage{b: b, ps: ps, cur: 0, refs: map[uint64]int{}, m: m}
	im.walkBucket(m.root, m.seq, 0)
	out := map[uint64]bool{}
	for pg := range im.refs {
		out[pg] = true
	}
	if m.freelist != zzNoFreelist {
		o := int(m.freelist) * ps
		ov := int(zzU32(b, o+12))
		for i := 0; i <= ov; i++ {
			out[m.freelist+uint64(i)] = true
		}
	}
	zz.Assertf(len(im.errs) == 0, "events/R-structure-of-visible-state", zzJoin(im.errs))
	return out
}

// zzProtectVisible marks every page of the newest committed state and of every open reader's state,
// plus the meta slot holding the newest committed meta, as protected: any pwrite overlapping them is
// reported by the vos.
func zzProtectVisible(path string, c zzCfg, readers []*zzReader) {
	zz.ProtectClear()
	b := zz.FileView(path)
	im := zzDecode(b, c.pageSize)
	zz.Assert(im.cur >= 0, "events/a-valid-meta")
	if im.cur < 0 {
		return
	}
	ps := int64(c.pageSize)
	zz.Protect(path, int64(im.cur)*ps, ps, "meta page of the newest committed state")
	for pg := range zzPagesOf(b, c.pageSize, im.m) {
		zz.Protect(path, int64(pg)*ps, ps, "page of the newest committed state")
	}
	for _, r := range readers {
		for pg := range zzPagesOf(b, c.pageSize, r.m) {
			zz.Protect(path, int64(pg)*ps, ps, "page of an open reader's state")
		}
	}
}

func zzEventOp(tx *Tx, c zzCfg) error {
	b := tx.Bucket([]byte("b"))
	switch zz.Choose(zz.Param("variants", 3)) {
	case 0:
		v := zzVal(c.pageSize*3/10, 'W')
		v[0] = zz.U8("val0") // symbolic content: snapshot comparisons are decided by the solver
		return b.Put([]byte("k04"), v)
	case 1:
		v := zzVal(c.pageSize+50, 'V')
		v[len(v)-1] = zz.U8("valN")
		return b.Put([]byte("ov2"), v)
	case 2:
		for _, k := range []string{"k08", "k10", "k12"} {
			if err := b.Delete([]byte(k)); err != nil {
				return err
			}
		}
		return nil
	case 3:
		return b.Put(zzSymKey("evk"), zzVal(c.pageSize*3/10, 'S'))
	}
	return nil
}

var zzErrBody = errors.New("transaction body fails")

func zzFreeSet(db *DB) map[uint64]bool {
	out := map[uint64]bool{}
	for _, id := range fl.ZZFreeIDs(db.freelist) {
		out[uint64(id)] = true
	}
	return out
}

func HarnessEvents() {
	c := zzConfig()
	focus := zz.Param("focus", 15)
	if c.initMmap < 256<<10 {
		c.initMmap = 256 << 10 // no remap while readers are held by this goroutine (a remap waits for them)
	}
	path := zz.TempPath("events.db")
	db := zzMustOpen(path, c, "events")
	zzSetup(db, zz.Param("setup", 1))
	if zz.Param("reopenflip", 0) == 1 {
		// the file was written under one freelist-sync setting and is reopened under the other one; no
		// commit has happened yet under the new setting when the event program starts
		zz.Assert(db.Close() == nil, "events/close-before-flip")
		c.noFLSync = !c.noFLSync
		db = zzMustOpen(path, c, "events/reopen-flipped")
		zz.Reach("reopened-flipped")
	}
	if zz.Param("damagemeta", 0) == 1 {
		// the newest meta page is torn (its checksum no longer matches) when the file is reopened: the
		// other slot now holds the newest committed meta and must not be overwritten by the next commit
		err := db.Update(func(tx *Tx) error { return tx.Bucket([]byte("b")).Put([]byte("k03"), []byte("x")) })
		zz.Assert(err == nil, "events/commit-before-damage") // both metas now describe states holding the bucket
		zz.Assert(db.Close() == nil, "events/close-before-damage")
		im := zzDecode(zz.FileBytes(path), c.pageSize)
		zz.Assert(im.cur >= 0 && im.meta[0].ok && im.meta[1].ok, "events/both-metas-valid-before-damage")
		off := int64(im.cur)*int64(c.pageSize) + 16 + 56 + int64(zz.Choose(8))
		zz.PokeFile(path, off, zz.PeekFile(path, off)^0x5a)
		db = zzMustOpen(path, c, "events/reopen-with-torn-newest-meta")
		zz.Reach("newest-meta-torn")
	}
	nev := zz.Param("events", 3)
	maxR := zz.Param("readers", 2)
	var readers []*zzReader
	lastTxid := uint64(0)
	_ = db.View(func(tx *Tx) error { lastTxid = uint64(tx.ID()); return nil })
	cur := zzViewDump(db, "events/initial")
	for e := 0; e < nev; e++ {
		kinds := []int{2, 3}
		if len(readers) < maxR {
			kinds = append(kinds, 0)
		}
		if len(readers) > 0 {
			kinds = append(kinds, 1)
		}
		if zz.Param("faults", 1) == 1 {
			kinds = append(kinds, 4)
		}
		if focus&zzFocusSerial != 0 {
			kinds = append(kinds, 5, 6) // managed transactions whose function fails / panics
		}
		kind := kinds[zz.Choose(len(kinds))]
		switch kind {
		case 0:
			zz.Reach("ev-open-reader")
			tx, err := db.Begin(false)
			zz.Assert(err == nil, "events/reader-begin")
			if focus&zzFocusSerial != 0 {
				zz.Assert(uint64(tx.ID()) == lastTxid, "events/reader-id-is-last-committed-id")
			}
			d := zzDump(tx)
			if focus&(zzFocusSerial|zzFocusSnapshot) != 0 {
				zz.Assert(zzSameKVs(d, cur), "events/reader-sees-last-committed-state")
			}
			readers = append(readers, &zzReader{tx: tx, dump: d, m: zzMetaOf(tx)})
		case 1:
			zz.Reach("ev-close-reader")
			i := zz.Choose(len(readers))
			zz.Assert(readers[i].tx.Rollback() == nil, "events/reader-close")
			readers = append(readers[:i], readers[i+1:]...)
		case 5, 6:
			// db.Update whose function returns an error (5) or panics (6): nothing becomes visible,
			// the id is not consumed, every lock is released
			var uerr error
			panicked := zzCatch(func() {
				uerr = db.Update(func(tx *Tx) error {
					if err := zzEventOp(tx, c); err != nil {
						return err
					}
					zz.Assert(uint64(tx.ID()) == lastTxid+1, "events/managed-writer-id")
					if kind == 6 {
						panic("transaction body panics")
					}
					return zzErrBody
				})
			})
			if kind == 5 {
				zz.Reach("ev-update-error")
				zz.Assert(!panicked && uerr == zzErrBody, "events/update-returns-the-functions-error")
			} else {
				zz.Reach("ev-update-panic")
				zz.Assert(panicked, "events/update-propagates-the-panic")
			}
			zzLocksFree(db, "events/after-failed-update", len(readers))
			zz.Assert(zzSameKVs(zzViewDump(db, "events/after-failed-update"), cur), "events/failed-update-changes-nothing")
		default:
			noReaders := len(readers) == 0
			if focus&zzFocusWrites != 0 {
				zzProtectVisible(path, c, readers)
			}
			tx, err := db.Begin(true)
			zz.Assert(err == nil, "events/writer-begin")
			if focus&zzFocusSerial != 0 {
				zz.Assert(uint64(tx.ID()) == lastTxid+1, "events/writer-id-is-next-id")
				zz.Assert(zzSameKVs(zzDump(tx), cur), "events/writer-sees-all-earlier-commits")
			}
			if focus&zzFocusReclaim != 0 {
				if noReaders {
					// nothing may be withheld any more once no reader is open
					zz.Assert(db.freelist.PendingCount() == 0, "events/no-reader-nothing-pending-at-writer-begin")
				}
				// safety: no page of an open reader's version is reusable
				if len(readers) > 0 {
					free := zzFreeSet(db)
					b := zz.FileView(path)
					for _, r := range readers {
						for pg := range zzPagesOf(b, c.pageSize, r.m) {
							zz.Assert(!free[pg], "events/reader-page-not-reusable")
						}
					}
				}
			}
			opErr := zzEventOp(tx, c)
			zz.Assert(opErr == nil, "events/op")
			next := zzDump(tx)
			switch kind {
			case 2:
				zz.Reach("ev-commit")
				zz.Assert(tx.Commit() == nil, "events/commit")
				cur = next
				lastTxid++
			case 3:
				zz.Reach("ev-rollback")
				zz.Assert(tx.Rollback() == nil, "events/rollback")
			case 4:
				zz.Reach("ev-failed-commit")
				zz.FaultArm("write", 1+zz.Choose(2)*2)
				err := tx.Commit()
				fired := zz.FaultFired()
				zz.FaultDisarm()
				if fired {
					zz.Reach("ev-failed-commit-fired")
					zz.Assert(err != nil, "events/failed-commit-reports-error")
				} else {
					// the armed call was never issued: an ordinary commit
					zz.Assert(err == nil, "events/commit")
					cur = next
					lastTxid++
				}
			}
			zz.ProtectClear()
			if focus&(zzFocusSerial|zzFocusSnapshot) != 0 {
				zz.Assert(zzSameKVs(zzViewDump(db, "events/after-writer"), cur), "events/visible-state-is-model")
			}
		}
		// after every event: every open reader still sees its snapshot
		if focus&zzFocusSnapshot != 0 {
			for _, r := range readers {
				d, p := zzDumpCatch(r.tx)
				zz.Assert(!p, "events/reader-usable")
				zz.Assert(zzSameKVs(d, r.dump), "events/reader-snapshot-immutable")
			}
		}
	}
	for _, r := range readers {
		_ = r.tx.Rollback()
	}
	if focus&zzFocusReclaim != 0 {
		// once all readers have closed the next write transaction can reuse every page released so far
		tx, err := db.Begin(true)
		zz.Assert(err == nil, "events/final-writer")
		zz.Assert(db.freelist.PendingCount() == 0, "events/all-released-after-last-reader-closed")
		_ = tx.Rollback()
	}
	zzCheckAll(db, path, c, "events/final")
	zz.Assert(db.Close() == nil, "events/close")
	zz.Reach("done")
}


// HarnessSteady (C10): k equal-size overwrites of one key with no reader open: the high-water mark
// stops growing after the third commit, and nothing stays pending at any writer begin.
func HarnessSteady() {
	c := zzConfig()
	path := zz.TempPath("steady.db")
	db := zzMustOpen(path, c, "steady")
	zzSetup(db, 1)
	k := zz.Param("k", 8)
	hwm := make([]uint64, 0, k)
	v0 := zz.U8("fill")
	for i := 0; i < k; i++ {
		err := db.Update(func(tx *Tx) error {
			zz.Assert(db.freelist.PendingCount() == 0, "steady/nothing-pending-at-writer-begin")
			v := zzVal(c.pageSize*3/10, byte(i))
			v[0] = v0
			return tx.Bucket([]byte("b")).Put([]byte("k08"), v)
		})
		zz.Assert(err == nil, "steady/update")
		_ = db.View(func(tx *Tx) error { hwm = append(hwm, uint64(tx.meta.Pgid())); return nil })
	}
	for i := 3; i < k; i++ {
		zz.Assert(hwm[i] == hwm[2], "steady/high-water-mark-stable-after-third-commit")
	}
	zz.Assert(zz.FileSize(path) <= int64(hwm[2])*int64(c.pageSize)+int64(32<<10), "steady/file-does-not-grow")
	zz.Assert(db.Close() == nil, "steady/close")
	zz.Reach("done")
}
