package main

import (
	"context"
	"encoding/json"
	"fmt"
	"os"
	"os/exec"
	"path/filepath"
	"strings"
	"time"
)

// nativeReplay runs the harness natively (real build of /repo, harness files overlaid) with the
// counterexample's inputs and harness-level choices.
func nativeReplay(rf *ReplayFile) map[string]interface{} { return nativeReplayOpt(rf, false) }

// nativeReplayOpt: with strace=true the test binary runs under strace (-f -y) and the log of the
// file system calls is returned under "strace_log" (environment differential, selfTest).
func nativeReplayOpt(rf *ReplayFile, strace bool) map[string]interface{} {
	res := map[string]interface{}{}
	repro := true
	for _, c := range rf.Cex.Chooses {
		if strings.HasPrefix(c.Label, "i:") {
			if c.Val != 0 || strings.HasPrefix(c.Label, "i:maprot") || strings.HasPrefix(c.Label, "i:sched") {
				repro = false
			}
		}
	}
	if rf.Cex.Kind == "unwind" {
		res["note"] = "non-termination candidate: native run is under a deadline"
	}
	res["natively_reproducible"] = repro
	tmp, err := os.MkdirTemp("", "gosym-native-")
	if err != nil {
		res["status"] = "unavailable"
		res["error"] = err.Error()
		return res
	}
	defer os.RemoveAll(tmp)
	i := strings.LastIndex(rf.Fn, ".")
	pkgPath, fnName := rf.Fn[:i], rf.Fn[i+1:]
	rel := strings.TrimPrefix(strings.TrimPrefix(pkgPath, "go.etcd.io/bbolt"), "/")
	pkgName := pkgPath[strings.LastIndex(pkgPath, "/")+1:]
	// replay data
	type nat struct {
		Inputs  []InputRec       `json:"inputs"`
		Chooses []int            `json:"chooses"`
		Params  map[string]int64 `json:"params"`
		TmpDir  string           `json:"tmpdir"`
	}
	nd := nat{Inputs: rf.Cex.Inputs, Params: rf.Params, TmpDir: tmp}
	if rf.Cex.Kind == "" && len(rf.Cex.Chooses) == 0 && len(rf.Cex.Inputs) == 0 {
		res["selftest"] = true
	}
	for _, c := range rf.Cex.Chooses {
		if c.Label == "h" {
			nd.Chooses = append(nd.Chooses, c.Val)
		}
	}
	rb, _ := json.Marshal(nd)
	rpath := filepath.Join(tmp, "replay.json")
	os.WriteFile(rpath, rb, 0o644)
	// overlay
	ov := map[string]string{}
	hdir := filepath.Join(verifDir, "harness")
	filepath.Walk(hdir, func(p string, info os.FileInfo, err error) error {
		if err != nil || info.IsDir() || !strings.HasSuffix(p, ".go") || strings.HasSuffix(p, "_sym.go") {
			return nil
		}
		r, _ := filepath.Rel(hdir, p)
		ov[filepath.Join(repoDir, r)] = p
		return nil
	})
	test := fmt.Sprintf("package %s\n\nimport (\n\t\"testing\"\n\t\"go.etcd.io/bbolt/internal/zzverif\"\n)\n\nfunc TestZZVerifReplay(t *testing.T) { zzverif.NativeRun(t, %s) }\n", pkgName, fnName)
	tpath := filepath.Join(tmp, "zz_verif_replay_test.go")
	os.WriteFile(tpath, []byte(test), 0o644)
	ov[filepath.Join(repoDir, rel, "zz_verif_replay_test.go")] = tpath
	ob, _ := json.Marshal(map[string]interface{}{"Replace": ov})
	opath := filepath.Join(tmp, "overlay.json")
	os.WriteFile(opath, ob, 0o644)
	ctx, cancel := context.WithTimeout(context.Background(), 300*time.Second)
	defer cancel()
	target := "./" + rel
	if rel == "" {
		target = "."
	}
	args := []string{"test", "-v", "-vet=off", "-count=1", "-overlay", opath, "-run", "^TestZZVerifReplay$", "-timeout", "120s"}
	slog := filepath.Join(tmp, "strace.log")
	if strace {
		args = append(args, "-exec", "strace -f -y -s 0 -o "+slog+" -e trace=pwrite64,pread64,fdatasync,fsync,ftruncate,flock,mmap")
	}
	args = append(args, target)
	cmd := exec.CommandContext(ctx, "go", args...)
	cmd.Dir = repoDir
	cmd.Env = append(os.Environ(), "GOFLAGS=-mod=mod", "GOPROXY=off", "GOSUMDB=off", "GOTOOLCHAIN=local", "ZZ_REPLAY="+rpath)
	out, err := cmd.CombinedOutput()
	s := string(out)
	res["cmd"] = strings.Join(cmd.Args, " ")
	tail := s
	if len(tail) > 3000 {
		tail = tail[len(tail)-3000:]
	}
	res["log_tail"] = tail
	res["log_full"] = s
	res["tmpdir"] = tmp
	if strace {
		if b, e := os.ReadFile(slog); e == nil {
			res["strace_log"] = string(b)
		}
	}
	switch {
	case ctx.Err() != nil || strings.Contains(s, "test timed out") || strings.Contains(s, "panic: test timed out"):
		res["status"] = "hang"
	case strings.Contains(s, "ZZVERIF-UNSUPPORTED"):
		res["status"] = "unavailable"
	case strings.Contains(s, "ZZVERIF-ASSERT-FAIL"):
		res["status"] = "fails"
	case strings.Contains(s, "ZZVERIF-ASSUME-FAIL"):
		res["status"] = "diverged"
	case err != nil && (strings.Contains(s, "panic:") || strings.Contains(s, "fatal error:") || strings.Contains(s, "SIGSEGV")):
		res["status"] = "fails"
		res["note"] = "native run panicked/crashed"
	case err != nil && strings.Contains(s, "[build failed]"):
		res["status"] = "unavailable"
		res["note"] = "native build failed"
	case err != nil:
		res["status"] = "fails"
	default:
		res["status"] = "passes"
	}
	return res
}

// selfTest runs a concrete harness in the engine and natively and compares the digests.
func selfTest(P *Program, fnName string, params map[string]int64) (ok bool, detail string) {
	fn := P.findFunc(fnName)
	if fn == nil {
		return false, "self-test function not found: " + fnName
	}
	cx := &Counterexample{}
	job := &Job{P: P, Fn: fn, Name: "selftest", Params: params, Concrete: cx, Known: map[string]bool{}}
	job.Explore(1, "", nil, "")
	if len(job.Cexs) > 0 || len(job.EngineErrors) > 0 {
		var why []string
		for id, c := range job.Cexs {
			why = append(why, id+": "+c.Msg)
		}
		return false, fmt.Sprintf("engine run of %s failed: %v %v", fnName, why, job.EngineErrors)
	}
	rf := &ReplayFile{Fn: fnName, Params: params, Cex: cx}
	wantEnv := strings.HasSuffix(fnName, "SelfTestDB")
	_, straceErr := exec.LookPath("strace")
	var nat map[string]interface{}
	straced := false
	if wantEnv && straceErr == nil {
		// one native run serves both the digest comparison and the environment differential
		nat = nativeReplayOpt(rf, true)
		if st, _ := nat["status"].(string); st == "passes" && strings.Contains(fmt.Sprint(nat["log_full"]), "ZZVERIF-DIGEST ") {
			straced = true
		}
	}
	if !straced {
		nat = nativeReplay(rf)
	}
	if st, _ := nat["status"].(string); st != "passes" {
		return false, fmt.Sprintf("native run of %s: %v\n%v", fnName, nat["status"], nat["log_tail"])
	}
	var nd []string
	for _, ln := range strings.Split(nat["log_full"].(string), "\n") {
		if strings.HasPrefix(ln, "ZZVERIF-DIGEST ") {
			nd = append(nd, strings.TrimPrefix(ln, "ZZVERIF-DIGEST "))
		}
	}
	if len(nd) == 0 || len(nd) != len(job.Digests) {
		return false, fmt.Sprintf("%s: digest count differs: engine %d native %d", fnName, len(job.Digests), len(nd))
	}
	for i := range nd {
		if nd[i] != job.Digests[i] {
			return false, fmt.Sprintf("%s: digest %d differs: engine %s native %s", fnName, i, job.Digests[i], nd[i])
		}
	}
	envNote := ""
	if wantEnv {
		// environment differential: the vos event trace of the engine run against the system calls the
		// real build issues on the real kernel for the same history (strace)
		if straceErr != nil {
			envNote = "; environment differential skipped: strace not installed"
		} else if !straced {
			envNote = "; environment differential unavailable here (the run under strace did not complete; plain native run used)"
		} else {
			nat2 := nat
			sl, _ := nat2["strace_log"].(string)
			tmpd, _ := nat2["tmpdir"].(string)
			if st, _ := nat2["status"].(string); st != "passes" || sl == "" {
				envNote = "; environment differential unavailable here (strace run: " + fmt.Sprint(nat2["status"]) + ")"
			} else {
				ne := parseStrace(sl, tmpd)
				ee := vosIOTrace(job.Events)
				if len(ne) == 0 {
					envNote = "; environment differential unavailable here (empty strace log: ptrace not permitted?)"
				} else {
					if d := firstDiff(ee, ne); d != "no difference" {
						// one retry: a split strace line this parser does not know would be a tool artefact
						nat3 := nativeReplayOpt(rf, true)
						sl3, _ := nat3["strace_log"].(string)
						td3, _ := nat3["tmpdir"].(string)
						ne = parseStrace(sl3, td3)
						if d2 := firstDiff(ee, ne); d2 != "no difference" {
							return false, fmt.Sprintf("%s: environment differential: vos issued %d I/O events, the real run %d system calls; %s (first attempt: %s)", fnName, len(ee), len(ne), d2, d)
						}
					}
					envNote = fmt.Sprintf("; vos event trace identical to the strace log of the native run (%d I/O calls: pwrite/pread/fdatasync/fsync/ftruncate/flock/mmap with offsets and lengths)", len(ne))
				}
			}
		}
	}
	return true, fmt.Sprintf("%s: %d observations identical in engine and native run%s", fnName, len(nd), envNote)
}

func firstDiff(a, b []string) string {
	n := len(a)
	if len(b) < n {
		n = len(b)
	}
	for i := 0; i < n; i++ {
		if a[i] != b[i] {
			return fmt.Sprintf("first difference at %d: vos %q real %q", i, a[i], b[i])
		}
	}
	if len(a) > n {
		return fmt.Sprintf("vos has extra event %d: %q", n, a[n])
	}
	if len(b) > n {
		return fmt.Sprintf("real run has extra call %d: %q", n, b[n])
	}
	return "no difference"
}

// vosIOTrace renders the vos events on data files in the normal form used for the comparison.
func vosIOTrace(evs []Event) []string {
	var out []string
	for _, e := range evs {
		base := filepath.Base(e.Path)
		if !strings.HasPrefix(e.Res, "ok") && !strings.HasPrefix(e.Res, "n=") && !strings.HasPrefix(e.Res, "prot=") {
			continue
		}
		switch e.Kind {
		case "pwrite":
			out = append(out, fmt.Sprintf("pwrite %s off=%d len=%d", base, e.Off, e.Len))
		case "pread":
			out = append(out, fmt.Sprintf("pread %s off=%d len=%d", base, e.Off, e.Len))
		case "fdatasync", "fsync":
			out = append(out, fmt.Sprintf("%s %s", e.Kind, base))
		case "ftruncate":
			out = append(out, fmt.Sprintf("ftruncate %s size=%d", base, e.Off))
		case "flock":
			out = append(out, fmt.Sprintf("flock %s how=%d", base, e.Off))
		case "mmap":
			out = append(out, fmt.Sprintf("mmap %s len=%d prot=%d", base, e.Len, e.Off))
		}
	}
	return out
}

// parseStrace extracts the same normal form from an `strace -f -y` log, for files under dir.
func parseStrace(log, dir string) []string {
	var out []string
	flockHow := map[string]int{"LOCK_SH": 1, "LOCK_EX": 2, "LOCK_NB": 4, "LOCK_UN": 8}
	protBits := map[string]int{"PROT_READ": 1, "PROT_WRITE": 2, "PROT_EXEC": 4, "PROT_NONE": 0}
	unfinished := map[string]string{}
	for _, ln := range strings.Split(log, "\n") {
		// "<pid> name(args) = ret"; calls interrupted by another thread's output are split into
		// "<pid> name(args <unfinished ...>" and "<pid> <... name resumed>rest) = ret"
		sp := strings.Index(ln, " ")
		if sp < 0 {
			continue
		}
		pid := ln[:sp]
		rest := strings.TrimSpace(ln[sp:])
		if u := strings.Index(rest, "<unfinished ...>"); u >= 0 {
			unfinished[pid] = rest[:u]
			continue
		}
		if strings.HasPrefix(rest, "<... ") {
			if r := strings.Index(rest, "resumed>"); r >= 0 {
				rest = unfinished[pid] + rest[r+len("resumed>"):]
				delete(unfinished, pid)
			}
		}
		par := strings.Index(rest, "(")
		eq := strings.LastIndex(rest, " = ")
		if par < 0 || eq < 0 {
			continue
		}
		name := rest[:par]
		args := rest[par+1 : eq]
		ret := strings.TrimSpace(rest[eq+3:])
		if strings.HasPrefix(ret, "-1") || strings.HasPrefix(ret, "?") {
			// failed call, or a call interrupted by a signal (the Go runtime preempts with SIGURG) that
			// the kernel restarts: strace logs the restarted call again
			continue
		}
		i := strings.Index(args, "<"+dir+"/")
		if i < 0 {
			continue
		}
		k := strings.Index(args[i:], ">")
		if k < 0 {
			continue
		}
		base := filepath.Base(args[i+1 : i+k])
		args = strings.TrimSuffix(strings.TrimSpace(args), ")")
		fields := strings.Split(args, ", ")
		for fi := range fields {
			fields[fi] = strings.TrimSpace(fields[fi])
		}
		last := func(n int) string {
			if len(fields) >= n {
				return strings.TrimSuffix(fields[len(fields)-n], ")")
			}
			return "?"
		}
		switch name {
		case "pwrite64":
			out = append(out, fmt.Sprintf("pwrite %s off=%s len=%s", base, last(1), last(2)))
		case "pread64":
			out = append(out, fmt.Sprintf("pread %s off=%s len=%s", base, last(1), last(2)))
		case "fdatasync", "fsync":
			out = append(out, fmt.Sprintf("%s %s", name, base))
		case "ftruncate":
			out = append(out, fmt.Sprintf("ftruncate %s size=%s", base, last(1)))
		case "flock":
			how := 0
			for _, f := range strings.Split(last(1), "|") {
				how |= flockHow[f]
			}
			out = append(out, fmt.Sprintf("flock %s how=%d", base, how))
		case "mmap":
			// mmap(NULL, len, prot, flags, fd<path>, off)
			if len(fields) >= 6 {
				prot := 0
				for _, f := range strings.Split(fields[2], "|") {
					prot |= protBits[f]
				}
				out = append(out, fmt.Sprintf("mmap %s len=%s prot=%d", base, fields[1], prot))
			}
		}
	}
	return out
}
