package freelist

// Kernel harnesses for the free-page allocator (C09, C10a, parts of C02/C06).
// One real operation from an arbitrary valid abstract state (F, P, A, R), both backends.

import (
	"unsafe"

	"go.etcd.io/bbolt/internal/common"
	zz "go.etcd.io/bbolt/internal/zzverif"
)

type zzPend struct {
	id common.Pgid
	a  common.Txid // allocating tx (0 = unknown)
	w  common.Txid // freeing tx
}

type zzState struct {
	fl    Interface
	sh    *shared
	F     []common.Pgid
	P     []zzPend
	A     map[common.Pgid]common.Txid // model of allocs (concrete-keyed list below)
	Akeys []common.Pgid
	Avals []common.Txid
	R     []common.Txid
}

func zzNew(backend int) (Interface, *shared) {
	if backend == 0 {
		a := NewArrayFreelist().(*array)
		return a, a.shared
	}
	h := NewHashMapFreelist().(*hashMap)
	return h, h.shared
}

func zzContains(ids []common.Pgid, x common.Pgid) bool {
	r := false
	for _, id := range ids {
		r = zz.Or(r, id == x)
	}
	return r
}

// zzBuild installs an arbitrary valid state into the real structures through the real API where
// possible (Init builds the hashmap indexes) and directly for pending/allocs/readers.
func zzBuild(backend, nF, nP, nA, nR int, hi uint64) *zzState {
	fl, sh := zzNew(backend)
	s := &zzState{fl: fl, sh: sh}
	// F: strictly increasing ids >= 2 with symbolic gaps 0..2
	prev := common.Pgid(1)
	for i := 0; i < nF; i++ {
		g := zz.U8("Fgap")
		zz.Assume(g <= 2)
		id := prev + 1 + common.Pgid(g)
		s.F = append(s.F, id)
		prev = id
	}
	ids := make(common.Pgids, len(s.F))
	copy(ids, s.F)
	fl.Init(ids)
	// P: pending entries, ids disjoint from F and each other, over two freeing txids w0 < w1
	var w [2]common.Txid
	w[0] = common.Txid(zz.U64("w0"))
	w[1] = common.Txid(zz.U64("w1"))
	zz.Assume(w[0] >= 1 && w[0] < w[1] && uint64(w[1]) < hi)
	for i := 0; i < nP; i++ {
		id := common.Pgid(zz.U64("Pid"))
		zz.Assume(id >= 2 && uint64(id) < hi)
		zz.Assume(!zzContains(s.F, id))
		for _, q := range s.P {
			zz.Assume(q.id != id)
		}
		wi := w[0]
		if zz.Bool("Pw") {
			wi = w[1]
		}
		a := common.Txid(zz.U64("Pa"))
		zz.Assume(a < wi) // allocated by an earlier tx, or 0 = unknown
		s.P = append(s.P, zzPend{id, a, wi})
		txp := sh.pending[wi]
		if txp == nil {
			txp = &txPending{}
			sh.pending[wi] = txp
		}
		txp.ids = append(txp.ids, id)
		txp.alloctx = append(txp.alloctx, a)
		sh.cache[id] = struct{}{}
	}
	// A: allocs entries, keys disjoint from F and P
	for i := 0; i < nA; i++ {
		id := common.Pgid(zz.U64("Aid"))
		zz.Assume(id >= 2 && uint64(id) < hi)
		zz.Assume(!zzContains(s.F, id))
		for _, q := range s.P {
			zz.Assume(q.id != id)
		}
		for _, k := range s.Akeys {
			zz.Assume(k != id)
		}
		t := common.Txid(zz.U64("Atx"))
		zz.Assume(t >= 1 && uint64(t) < hi)
		s.Akeys = append(s.Akeys, id)
		s.Avals = append(s.Avals, t)
		sh.allocs[id] = t
	}
	// R: readers (multiset)
	for i := 0; i < nR; i++ {
		t := common.Txid(zz.U64("Rtx"))
		zz.Assume(uint64(t) < hi)
		s.R = append(s.R, t)
		sh.readonlyTXIDs = append(sh.readonlyTXIDs, t)
	}
	return s
}

// zzRI asserts the representation invariant on the real structures.
func zzRI(s *zzState, id string) {
	free := s.fl.freePageIds()
	// sorted, distinct, >= 2
	for i := range free {
		zz.Assert(free[i] >= 2, id+"/free>=2")
		if i > 0 {
			zz.Assert(free[i-1] < free[i], id+"/free-sorted-distinct")
		}
	}
	zz.Assert(s.fl.FreeCount() == len(free), id+"/freecount")
	// cache = F ∪ P exactly
	np := 0
	for _, txp := range s.sh.pending {
		zz.Assert(len(txp.ids) == len(txp.alloctx), id+"/pending-lens")
		for _, pid := range txp.ids {
			np++
			_, ok := s.sh.cache[pid]
			zz.Assert(ok, id+"/pending-in-cache")
			zz.Assert(!zzContains(free, pid), id+"/pending-not-free")
		}
	}
	for _, fid := range free {
		_, ok := s.sh.cache[fid]
		zz.Assert(ok, id+"/free-in-cache")
	}
	zz.Assert(len(s.sh.cache) == len(free)+np, id+"/cache-size")
	zz.Assert(s.fl.PendingCount() == np, id+"/pendingcount")
	// (allocs may legitimately hold stale entries for overflow ids after a rolled-back Free, so
	// "allocs ∩ cache = ∅" is not an invariant of the real code and is not asserted.)
	if h, ok := s.fl.(*hashMap); ok {
		zzRIHash(h, free, id)
	}
}

// zzRIHash: forward/backward/freemaps describe the same maximal non-adjacent spans.
func zzRIHash(h *hashMap, free []common.Pgid, id string) {
	total := uint64(0)
	nspans := 0
	for start, size := range h.forwardMap {
		nspans++
		total += size
		zz.Assert(size >= 1, id+"/span-size")
		bs, ok := h.backwardMap[start+common.Pgid(size)-1]
		zz.Assert(ok && bs == size, id+"/backward-matches")
		set, ok2 := h.freemaps[size]
		zz.Assert(ok2, id+"/freemaps-has-size")
		_, ok3 := set[start]
		zz.Assert(ok3, id+"/freemaps-has-start")
		// maximal: neighbours are not free
		zz.Assert(!zzContains(free, start-1), id+"/span-maximal-left")
		zz.Assert(!zzContains(free, start+common.Pgid(size)), id+"/span-maximal-right")
		for k := uint64(0); k < size; k++ {
			zz.Assert(zzContains(free, start+common.Pgid(k)), id+"/span-members-free")
		}
	}
	zz.Assert(len(h.backwardMap) == nspans, id+"/backward-count")
	cnt := 0
	for _, set := range h.freemaps {
		zz.Assert(len(set) > 0, id+"/freemaps-no-empty-set")
		cnt += len(set)
	}
	zz.Assert(cnt == nspans, id+"/freemaps-count")
	zz.Assert(h.freePagesCount == total, id+"/freePagesCount")
	zz.Assert(total == uint64(len(free)), id+"/total=len(free)")
}

func zzSameIDs(a, b []common.Pgid) bool {
	if len(a) != len(b) {
		return false
	}
	r := true
	for i := range a {
		r = zz.And(r, a[i] == b[i])
	}
	return r
}

func zzCopyIDs(a []common.Pgid) []common.Pgid {
	c := make([]common.Pgid, len(a))
	copy(c, a)
	return c
}

// HarnessAlloc: Allocate(t, n) from an arbitrary valid state.
func HarnessAlloc() {
	backend := zz.Param("backend", 0)
	s := zzBuild(backend, zz.Param("nF", 4), zz.Param("nP", 1), zz.Param("nA", 1), 0, 1<<40)
	zzRI(s, "alloc/pre")
	n := int(zz.U8("n"))
	zz.Assume(n >= 1 && n <= zz.Param("maxN", 3))
	txid := common.Txid(zz.U64("txid"))
	zz.Assume(txid >= 1)
	before := zzCopyIDs(s.F)
	pendBefore := s.fl.PendingCount()
	zz.MapOrderAny(true) // hashmap: "any element" picks every element
	r := s.fl.Allocate(txid, n)
	zz.MapOrderAny(false)
	after := zzCopyIDs(s.fl.freePageIds())
	if r == 0 {
		zz.Reach("alloc-failed")
		// no run of n consecutive ids existed
		for i := 0; i+n <= len(before); i++ {
			zz.Assert(before[i+n-1]-before[i] != common.Pgid(n-1), "alloc/none-only-if-no-run")
		}
		zz.Assert(zzSameIDs(before, after), "alloc/none-changes-nothing")
	} else {
		zz.Reach("allocated")
		zz.Assert(r >= 2, "alloc/never-meta")
		for k := 0; k < n; k++ {
			zz.Assert(zzContains(before, r+common.Pgid(k)), "alloc/run-was-free")
			zz.Assert(!zzContains(after, r+common.Pgid(k)), "alloc/run-free-no-longer")
			_, inCache := s.sh.cache[r+common.Pgid(k)]
			zz.Assert(!inCache, "alloc/run-out-of-cache")
		}
		zz.Assert(len(after) == len(before)-n, "alloc/exactly-n-removed")
		for _, id := range after {
			zz.Assert(zzContains(before, id), "alloc/nothing-added")
		}
		at, ok := s.sh.allocs[r]
		zz.Assert(ok && at == txid, "alloc/allocs-records-tx")
	}
	zz.Assert(s.fl.PendingCount() == pendBefore, "alloc/pending-unchanged")
	zzRI(s, "alloc/post")
}

// HarnessFree: Free(t, page{id, overflow}) from an arbitrary valid state.
func HarnessFree() {
	backend := zz.Param("backend", 0)
	s := zzBuild(backend, zz.Param("nF", 3), zz.Param("nP", 2), zz.Param("nA", 2), 0, 1<<40)
	zzRI(s, "free/pre")
	id := common.Pgid(zz.U64("id"))
	zz.Assume(uint64(id) < 1<<40)
	ov := uint32(zz.U8("overflow"))
	zz.Assume(int(ov) <= zz.Param("maxOv", 1))
	txid := common.Txid(zz.U64("txid"))
	zz.Assume(txid >= 2 && uint64(txid) < 1<<40)
	// the freeing tx is the newest one: larger than every recorded txid
	for _, q := range s.P {
		zz.Assume(q.w <= txid)
	}
	for _, t := range s.Avals {
		zz.Assume(t < txid)
	}
	buf := make([]byte, 64)
	p := (*common.Page)(unsafe.Pointer(&buf[0]))
	p.SetId(id)
	p.SetOverflow(ov)
	before := zzCopyIDs(s.F)
	// expected outcome
	clash := id <= 1
	for k := uint32(0); k <= ov; k++ {
		x := id + common.Pgid(k)
		clash = zz.Or(clash, zzContains(before, x))
		for _, q := range s.P {
			clash = zz.Or(clash, q.id == x)
		}
	}
	expA := common.Txid(0)
	hadA := false
	for i, k := range s.Akeys {
		if k == id {
			expA = s.Avals[i]
			hadA = true
		}
	}
	pendBefore := s.fl.PendingCount()
	panicked := zzCatch(func() { s.fl.Free(txid, p) })
	if panicked {
		zz.Reach("free-panicked")
		zz.Assert(clash, "free/panics-only-on-meta-or-double-free")
		return
	}
	zz.Reach("freed")
	zz.Assert(!clash, "free/must-panic-on-meta-or-double-free")
	after := s.fl.freePageIds()
	zz.Assert(zzSameIDs(before, after), "free/never-directly-reusable")
	zz.Assert(s.fl.PendingCount() == pendBefore+int(ov)+1, "free/pending-grows-by-run")
	txp := s.sh.pending[txid]
	zz.Assert(txp != nil, "free/pending-for-tx")
	if txp != nil {
		for k := uint32(0); k <= ov; k++ {
			x := id + common.Pgid(k)
			found := false
			for i, pid := range txp.ids {
				if pid == x {
					found = true
					zz.Assert(txp.alloctx[i] == expA, "free/alloctx-recorded")
				}
			}
			zz.Assert(found, "free/run-pending")
		}
	}
	_, still := s.sh.allocs[id]
	zz.Assert(!still, "free/allocs-entry-removed")
	_ = hadA
	zzRI(s, "free/post")
}

func zzCatch(f func()) (panicked bool) {
	defer func() {
		if r := recover(); r != nil {
			panicked = true
		}
	}()
	f()
	return false
}
