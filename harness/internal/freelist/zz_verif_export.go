package freelist

import "go.etcd.io/bbolt/internal/common"

// ZZFreeIDs / ZZPendingIDs expose the two halves of the allocator state to the DB-level harnesses
// (observation only).
func ZZFreeIDs(f Interface) []common.Pgid {
	ids := f.freePageIds()
	out := make([]common.Pgid, len(ids))
	copy(out, ids)
	return out
}

func ZZPendingIDs(f Interface) (ids []common.Pgid, freedBy []common.Txid, allocBy []common.Txid) {
	for tid, txp := range f.pendingPageIds() {
		for i, id := range txp.ids {
			ids = append(ids, id)
			freedBy = append(freedBy, tid)
			allocBy = append(allocBy, txp.alloctx[i])
		}
	}
	return
}
