package main

import (
	"fmt"
	"go/types"
	"sync"

	"golang.org/x/tools/go/ssa"
)

// Value is one of: Int, Float, Str, Ptr, Slice, *MapObj, Iface, *Closure, *ssa.Function,
// *ssa.Builtin, *ChanObj, Struct, Array, Tuple, *MapIter, nil (for absent optional operands).
type Value interface{}

// Int is a boolean (W=1) or integer (W=8/16/32/64) scalar: concrete when N == nil.
// P != nil: the value is an address (base of object P plus C/N as offset) held in a uintptr.
type Int struct {
	W uint8
	C uint64
	N *Node
	P *Obj
}

type Float struct {
	F float64
	W uint8
}

// Str: immutable byte sequence; N[i] != nil overrides byte i with a symbolic byte.
type Str struct {
	S string
	N []*Node
}

type Ptr struct {
	O   *Obj
	Off int64
}

type Slice struct {
	O        *Obj
	Off      int64
	Len, Cap int64
}

type Iface struct {
	T types.Type
	V Value
}

type Closure struct {
	Fn  *ssa.Function
	Env []Value
}

type Struct []Value
type Array []Value
type Tuple []Value

type Complex struct{ Re, Im float64 }

func mkInt(w uint8, c uint64) Int { return Int{W: w, C: c & mask(w)} }
func mkBool(b bool) Int {
	if b {
		return Int{W: 1, C: 1}
	}
	return Int{W: 1}
}

func (i Int) IsConc() bool { return i.N == nil }

var stdSizes = &types.StdSizes{WordSize: 8, MaxAlign: 8}

type layoutInfo struct {
	size    int64
	offsets []int64
}

var layoutCache sync.Map // types.Type -> *layoutInfo

func sizeof(t types.Type) int64 {
	if li, ok := layoutCache.Load(t); ok {
		return li.(*layoutInfo).size
	}
	li := &layoutInfo{size: stdSizes.Sizeof(t)}
	if st, ok := t.Underlying().(*types.Struct); ok {
		fields := make([]*types.Var, st.NumFields())
		for i := range fields {
			fields[i] = st.Field(i)
		}
		li.offsets = stdSizes.Offsetsof(fields)
	}
	layoutCache.Store(t, li)
	return li.size
}

func fieldOffsets(t types.Type) []int64 {
	if li, ok := layoutCache.Load(t); ok {
		return li.(*layoutInfo).offsets
	}
	sizeof(t)
	li, _ := layoutCache.Load(t)
	return li.(*layoutInfo).offsets
}

func intWidth(b *types.Basic) uint8 {
	switch b.Kind() {
	case types.Bool, types.UntypedBool:
		return 1
	case types.Int8, types.Uint8:
		return 8
	case types.Int16, types.Uint16:
		return 16
	case types.Int32, types.Uint32, types.UntypedRune:
		return 32
	case types.Int, types.Uint, types.Int64, types.Uint64, types.Uintptr, types.UntypedInt:
		return 64
	}
	return 0
}

func isSigned(t types.Type) bool {
	b, ok := t.Underlying().(*types.Basic)
	if !ok {
		return false
	}
	switch b.Kind() {
	case types.Int, types.Int8, types.Int16, types.Int32, types.Int64, types.UntypedInt, types.UntypedRune:
		return true
	}
	return false
}

// zero returns the zero value of type t.
func zero(t types.Type) Value {
	switch t := t.Underlying().(type) {
	case *types.Basic:
		switch {
		case t.Kind() == types.String || t.Kind() == types.UntypedString:
			return Str{}
		case t.Kind() == types.UnsafePointer:
			return Ptr{}
		case t.Info()&types.IsFloat != 0:
			if t.Kind() == types.Float32 {
				return Float{W: 32}
			}
			return Float{W: 64}
		case t.Info()&types.IsComplex != 0:
			return Complex{}
		case t.Kind() == types.UntypedNil:
			return Ptr{}
		default:
			return Int{W: intWidth(t)}
		}
	case *types.Pointer:
		return Ptr{}
	case *types.Slice:
		return Slice{}
	case *types.Map:
		return (*MapObj)(nil)
	case *types.Chan:
		return (*ChanObj)(nil)
	case *types.Signature:
		return (*Closure)(nil)
	case *types.Interface:
		return Iface{}
	case *types.Struct:
		s := make(Struct, t.NumFields())
		for i := range s {
			s[i] = zero(t.Field(i).Type())
		}
		return s
	case *types.Array:
		a := make(Array, t.Len())
		for i := range a {
			a[i] = zero(t.Elem())
		}
		return a
	case *types.Tuple:
		if t.Len() == 0 {
			return nil
		}
		tu := make(Tuple, t.Len())
		for i := range tu {
			tu[i] = zero(t.At(i).Type())
		}
		return tu
	}
	panic(fmt.Sprintf("zero: unsupported type %v (%T)", t, t))
}

func copyVal(v Value) Value {
	switch v := v.(type) {
	case Struct:
		c := make(Struct, len(v))
		for i := range v {
			c[i] = copyVal(v[i])
		}
		return c
	case Array:
		c := make(Array, len(v))
		for i := range v {
			c[i] = copyVal(v[i])
		}
		return c
	}
	return v
}

func isNilFunc(v Value) bool {
	switch f := v.(type) {
	case *Closure:
		return f == nil
	case *ssa.Function:
		return f == nil
	case *ssa.Builtin:
		return f == nil
	case nil:
		return true
	}
	return false
}
