package bbolt

// D-CURSOR (C05): cursor programs over pages, materialised nodes and nodes emptied in the same
// transaction, compared call by call with a sorted list and a position.

import (
	"bytes"

	zz "go.etcd.io/bbolt/internal/zzverif"
)

type zzCurModel struct {
	keys   [][]byte
	bucket []bool
	pos    int // -1: not positioned
}

func (m *zzCurModel) at() ([]byte, bool) {
	if m.pos < 0 || m.pos >= len(m.keys) {
		return nil, false
	}
	return m.keys[m.pos], m.bucket[m.pos]
}

func HarnessCursor() {
	c := zzConfig()
	path := zz.TempPath("cursor.db")
	db := zzMustOpen(path, c, "cursor")
	kind := zz.Param("setup", 1)
	zzSetup(db, kind)
	m := &zzCurModel{pos: -1}
	// the model starts from what a read transaction's First/Next enumerates on the committed,
	// unmodified tree (pages only) – checked to be strictly ascending
	_ = db.View(func(tx *Tx) error {
		cur := tx.Bucket([]byte("b")).Cursor()
		for k, v := cur.First(); k != nil; k, v = cur.Next() {
			if len(m.keys) > 0 {
				zz.Assert(bytes.Compare(m.keys[len(m.keys)-1], k) < 0, "cursor/setup-ascending")
			}
			m.keys = append(m.keys, zzClone(k))
			m.bucket = append(m.bucket, v == nil)
		}
		return nil
	})
	mode := zz.Param("mode", 3) // bit 0: deletes, bit 1: insert; 0 = read transaction
	writable := mode != 0
	tx, err := db.Begin(writable)
	zz.Assert(err == nil, "cursor/begin")
	b := tx.Bucket([]byte("b"))
	var cur *Cursor
	if writable && zz.Param("reuse", 0) == 1 && zz.Choose(2) == 1 {
		// the cursor exists and was positioned before the transaction's puts and deletes; afterwards it
		// is repositioned by an absolute call (First/Last/Seek), as the documentation demands
		zz.Reach("cursor-reused-across-mutation")
		cur = b.Cursor()
		if zz.Choose(2) == 0 {
			cur.First()
		} else {
			cur.Seek([]byte("k08"))
		}
	}
	if writable {
		zz.Reach("write-tx")
		// delete a contiguous range [i, j) of the existing plain keys
		n := len(m.keys)
		i, j := n, n
		if mode&1 != 0 {
			i = zz.Choose(n + 1)
			j = i
			if i < n {
				switch zz.Choose(3) {
				case 0:
					j = i + 1
				case 1:
					j = i + 3
				case 2:
					j = n
				}
				if j > n {
					j = n
				}
			}
		}
		var nk [][]byte
		var nb []bool
		for x := 0; x < n; x++ {
			if x >= i && x < j && !m.bucket[x] {
				zz.Assert(b.Delete(m.keys[x]) == nil, "cursor/delete")
				continue
			}
			nk = append(nk, m.keys[x])
			nb = append(nb, m.bucket[x])
		}
		m.keys, m.bucket = nk, nb
		if j > i {
			zz.Reach("deleted-range")
		}
		if mode&2 != 0 {
			// insert one new symbolic key
			k := zzSymKey("ins")
			pos := 0
			dup := false
			for pos < len(m.keys) {
				cmp := bytes.Compare(m.keys[pos], k)
				if cmp == 0 {
					dup = true
				}
				if cmp >= 0 {
					break
				}
				pos++
			}
			if dup && m.bucket[pos] {
				zz.Assert(b.Put(k, []byte("new")) != nil, "cursor/put-over-bucket-fails")
			} else {
				zz.Assert(b.Put(k, []byte("new")) == nil, "cursor/put")
				if !dup {
					m.keys = append(m.keys[:pos], append([][]byte{k}, m.keys[pos:]...)...)
					m.bucket = append(m.bucket[:pos], append([]bool{false}, m.bucket[pos:]...)...)
				}
				zz.Reach("inserted")
			}
		}
	}
	if cur == nil {
		cur = b.Cursor()
	}
	steps := zz.Param("steps", 3)
	ended := false
	posLost := false // known finding C05/next-off-end: Next ran off the end onto a leaf emptied in this tx
	for s := 0; s < steps && !ended; s++ {
		var k, v []byte
		var wk []byte
		var wb bool
		var op int
		if m.pos < 0 {
			op = []int{0, 1, 4}[zz.Choose(3)] // an unpositioned cursor must be positioned first
		} else {
			op = []int{2, 3, 1, 4, 0}[zz.Choose(zz.Param("laterops", 4))]
		}
		switch op {
		case 0:
			zz.Reach("First")
			k, v = cur.First()
			if len(m.keys) == 0 {
				m.pos = -1
			} else {
				m.pos = 0
			}
			wk, wb = m.at()
		case 1:
			zz.Reach("Last")
			k, v = cur.Last()
			m.pos = len(m.keys) - 1
			wk, wb = m.at()
		case 2:
			zz.Reach("Next")
			k, v = cur.Next()
			if m.pos+1 < len(m.keys) {
				m.pos++
				wk, wb = m.at()
			} else {
				zz.Reach("Next-off-end")
			}
			if k == nil && len(cur.stack) > 0 && cur.stack[len(cur.stack)-1].count() == 0 && len(cur.stack) > 1 {
				posLost = true
			}
		case 3:
			zz.Reach("Prev")
			k, v = cur.Prev()
			if m.pos > 0 {
				m.pos--
				wk, wb = m.at()
			} else {
				zz.Reach("Prev-off-start")
			}
		case 4:
			zz.Reach("Seek")
			sk := zz.Bytes("seek", zz.Param("seeklen", 3))
			zz.Assume(sk[0] == 'k')
			k, v = cur.Seek(sk)
			pos := 0
			for pos < len(m.keys) && bytes.Compare(m.keys[pos], sk) < 0 {
				pos++
			}
			if pos < len(m.keys) {
				m.pos = pos
				wk, wb = m.at()
			} else {
				ended = true // position after a Seek that found nothing is not documented
				zz.Reach("Seek-past-end")
			}
		}
		if m.pos < 0 {
			ended = true // empty bucket: nothing more to compare
		}
		okKey := false
		if wk == nil {
			okKey = k == nil
		} else {
			okKey = k != nil && len(k) == len(wk) && bytes.Equal(k, wk)
		}
		zz.AssertUnless(okKey, posLost, "cursor/key-equals-model", "C05/next-off-end-over-emptied-leaves")
		if wk != nil && k != nil {
			zz.AssertUnless(zz.Implies(okKey, (v == nil) == wb), posLost, "cursor/nil-value-iff-nested-bucket", "C05/next-off-end-over-emptied-leaves")
		}
	}
	_ = tx.Rollback()
	zz.Assert(db.Close() == nil, "cursor/close")
	zz.Reach("done")
}
