#!/usr/bin/env python3
"""Assembles /verif/seeded/<ID>-<k>/ (patch.diff, demonstration, meta.json) and seeded/MATRIX.md from
 - seeded/_incoming/<ID>-m<k>/      the sub-agents' deliverables (copied from their output directories)
 - /tmp/suite_verify.txt            my full re-verification (demo on pristine tree, patch applies, builds,
                                    demo fails with the patch, existing suite passes with the patch)
 - /tmp/matrix*.txt                 runs of my checks against each change (scratch worktree of /repo HEAD)
 - tools/seed_notes.json            what was strengthened for changes that were missed at first
A change whose re-verification is incomplete goes to seeded/_unconfirmed/ instead."""
import json, os, re, shutil, glob, sys
V = '/verif'
INC = f'{V}/seeded/_incoming'
notes = json.load(open(f'{V}/tools/seed_notes.json')) if os.path.exists(f'{V}/tools/seed_notes.json') else {}
FLAKY = 'TestDB_Open_InitialMmapSize'

ver = {}
if os.path.exists('/tmp/suite_verify.txt'):
    for ln in open('/tmp/suite_verify.txt'):
        parts = ln.split()
        if not parts:
            continue
        sid = parts[0]
        d = dict(re.findall(r'(\w+) rc=(\d+)', ln))
        fails = ln.split('FAILS:')[1].split() if 'FAILS:' in ln else []
        ver[sid] = (d, fails)

runs = {}
for f in sorted(glob.glob('/tmp/matrix*.txt')):
    for ln in open(f):
        m = re.match(r'(C\d+-m\d)\S* check=(C\d+) rc=(\d+) (\d+)s asserts=(\S*) inconclusive=(\d+)', ln.strip())
        if m:
            sid, chk, rc, secs, asserts, inc = m.groups()
            runs.setdefault(sid, []).append({'check': chk, 'exit': int(rc), 'assertions': [a for a in asserts.split(',') if a], 'source': os.path.basename(f)})

for old in glob.glob(f'{V}/seeded/C*-*') + glob.glob(f'{V}/seeded/_unconfirmed'):
    shutil.rmtree(old, ignore_errors=True)
rows = []
for d in sorted(glob.glob(f'{INC}/C*-m*')):
    sid = os.path.basename(d)
    pid, m = sid.split('-')
    k = m[1:]
    meta = json.load(open(f'{d}/meta.json'))
    meta['property'] = pid
    v = ver.get(sid)
    confirmed = False
    if v:
        dd, fails = v
        ok_demo = dd.get('demo_pristine') == '0' and dd.get('demo_patched') not in (None, '0')
        suite_ok = dd.get('suite') == '0' or (fails and all(f.startswith(FLAKY) for f in fails))
        confirmed = dd.get('apply') == '0' and dd.get('build') == '0' and ok_demo and bool(suite_ok)
        meta['verified_by_me'] = {
            'where': 'scratch git worktree of /repo HEAD under /tmp (removed afterwards), tools/verify_seed.sh',
            'patch_applies_and_builds': dd.get('apply') == '0' and dd.get('build') == '0',
            'demo_on_unchanged_tree': 'passes' if dd.get('demo_pristine') == '0' else 'FAILS',
            'demo_with_patch': 'fails' if dd.get('demo_patched') not in (None, '0') else 'passes',
            'existing_suite_with_patch': 'go test -vet=off -count=1 . ./internal/... ./cmd/... : ' + ('all ok' if dd.get('suite') == '0' else ('all ok except ' + ', '.join(sorted(set(f.split('/')[0] for f in fails))) + ' (listed flaky in the baseline; fails the same way on the unchanged tree under this load)' if suite_ok else 'NOT ok: ' + ' '.join(fails))),
        }
    det = runs.get(sid, [])
    own = [r for r in det if r['check'] == pid]
    caught_own = [r for r in own if r['exit'] == 1]
    caught_other = sorted(set(r['check'] for r in det if r['exit'] == 1 and r['check'] != pid))
    first_own = own[0]['exit'] if own else None
    meta['runs_of_my_checks'] = det
    n = notes.get(sid, {})
    if n:
        meta['strengthening'] = n
    dst = f"{V}/seeded/{pid}-{k}" if confirmed else f"{V}/seeded/_unconfirmed/{pid}-{k}"
    os.makedirs(dst, exist_ok=True)
    for f in glob.glob(f'{d}/*'):
        if os.path.basename(f) != 'meta.json':
            if os.path.isdir(f):
                shutil.copytree(f, f'{dst}/{os.path.basename(f)}', dirs_exist_ok=True)
            else:
                shutil.copy(f, dst)
    json.dump(meta, open(f'{dst}/meta.json', 'w'), indent=1)
    if caught_own:
        status = f"{pid}: " + ', '.join(sorted(set(a for r in caught_own for a in r['assertions']))[:3])
        if first_own == 0 or n.get('missed_at_first'):
            status += ' (after strengthening: ' + n.get('added', 'see §9.2a') + ')'
    elif n.get('outside'):
        status = 'NOT DETECTED — ' + n['outside']
    elif own:
        status = 'NOT DETECTED by ' + pid
    else:
        status = 'not run'
    if caught_other:
        status += '; also ' + ', '.join(caught_other)
    summ = meta.get('summary', '').replace('|', '/').replace('\n', ' ')
    rows.append((f'{pid}-{k}', 'yes' if confirmed else 'demo only', summ[:170], status))

with open(f'{V}/seeded/MATRIX.md', 'w') as f:
    f.write('# Seeded changes and the checks that report them\n\n'
            'Each change was written by a sub-agent that saw one property record and a scratch worktree only. '
            '"confirmed" = I re-ran, in my own scratch worktree: demonstration passes on the unchanged tree, patch applies and builds, '
            'demonstration fails with the patch, existing suite passes with the patch (the baseline-flaky TestDB_Open_InitialMmapSize excepted). '
            'Detection = quick tier of my checks run against a scratch worktree of /repo HEAD with the patch applied '
            '(`tools/seedwt.sh`, engine confirmation of every counterexample by concrete re-execution); the assertion ids are those of the first counterexamples. '
            '"after strengthening" marks changes the property\'s own check missed when first run; what was added is in DESIGN.md §9.2a.\n\n'
            '| seed | confirmed | change | detected by |\n|---|---|---|---|\n')
    for r in rows:
        f.write('| ' + ' | '.join(r) + ' |\n')
print(len(rows), 'seeds;', sum(1 for r in rows if r[1] == 'yes'), 'confirmed')
