package main

// One long-lived `z3 -in` process per worker. Per run: (push) ... (pop).

import (
	"bufio"
	"fmt"
	"io"
	"os"
	"os/exec"
	"strconv"
	"strings"
	"time"
)

type SatResult int

const (
	Unsat SatResult = iota
	Sat
	Unknown
)

func (r SatResult) String() string { return [...]string{"unsat", "sat", "unknown"}[r] }

type Solver struct {
	cmd     *exec.Cmd
	in      io.WriteCloser
	out     *bufio.Reader
	buf     strings.Builder
	logf    *os.File
	bin     string
	args    []string
	depth   int
	Queries [3]int64
	Time    time.Duration
	Errors  int
	// transcript of the open scopes (declarations and assertions of the current path), so that a
	// query the solver gave up on can be retried by a fresh process with a longer time limit
	hist    []string
	marks   []int
	Retries int64
	Rescued int64
}

func NewSolver(bin string, args []string, logPath string) (*Solver, error) {
	s := &Solver{bin: bin, args: args}
	if logPath != "" {
		f, err := os.Create(logPath)
		if err != nil {
			return nil, err
		}
		s.logf = f
	}
	if err := s.start(); err != nil {
		return nil, err
	}
	return s, nil
}

func (s *Solver) start() error {
	s.cmd = exec.Command(s.bin, s.args...)
	in, err := s.cmd.StdinPipe()
	if err != nil {
		return err
	}
	out, err := s.cmd.StdoutPipe()
	if err != nil {
		return err
	}
	s.cmd.Stderr = os.Stderr
	if err := s.cmd.Start(); err != nil {
		return err
	}
	s.in = in
	s.out = bufio.NewReaderSize(out, 1<<16)
	s.depth = 0
	s.Send("(set-option :print-success false)")
	s.Send("(set-option :produce-models true)")
	if strings.Contains(s.bin, "z3") {
		s.Send(fmt.Sprintf("(set-option :timeout %d)", solverTimeoutMs))
	}
	s.Send("(set-logic QF_BV)")
	return nil
}

var solverTimeoutMs = 30000

func (s *Solver) Close() {
	if s.in != nil {
		s.flush()
		s.in.Close()
	}
	if s.cmd != nil {
		s.cmd.Process.Kill()
		s.cmd.Wait()
	}
	if s.logf != nil {
		s.logf.Close()
	}
}

func (s *Solver) Send(line string) {
	s.buf.WriteString(line)
	s.buf.WriteByte('\n')
	if s.depth > 0 && !strings.HasPrefix(line, "(check-sat") && !strings.HasPrefix(line, "(get-value") {
		s.hist = append(s.hist, line)
	}
}

func (s *Solver) flush() {
	if s.buf.Len() == 0 {
		return
	}
	str := s.buf.String()
	s.buf.Reset()
	if s.logf != nil {
		s.logf.WriteString(str)
	}
	io.WriteString(s.in, str)
}

func (s *Solver) Push() {
	s.marks = append(s.marks, len(s.hist))
	s.depth++
	s.Send("(push 1)")
}

func (s *Solver) Pop() {
	s.Send("(pop 1)")
	s.depth--
	if n := len(s.marks); n > 0 {
		s.hist = s.hist[:s.marks[n-1]]
		s.marks = s.marks[:n-1]
	}
	if s.depth <= 0 {
		s.hist, s.marks = s.hist[:0], s.marks[:0]
	}
}

// retryFresh re-decides the current query (the transcript of the open scopes) in a fresh solver
// process with a longer time limit. Used when the incremental solver answered unknown, which on a
// loaded machine is usually its wall-clock limit.
func (s *Solver) retryFresh(nvars int) (SatResult, string) {
	var sb strings.Builder
	sb.WriteString("(set-option :print-success false)\n(set-option :produce-models true)\n")
	if strings.Contains(s.bin, "z3") {
		fmt.Fprintf(&sb, "(set-option :timeout %d)\n", retryTimeoutMs)
	}
	sb.WriteString("(set-logic QF_BV)\n")
	for _, l := range s.hist {
		sb.WriteString(l)
		sb.WriteByte('\n')
	}
	sb.WriteString("(check-sat)\n")
	if nvars > 0 {
		sb.WriteString("(get-value (")
		for i := 0; i < nvars; i++ {
			fmt.Fprintf(&sb, "v%d ", i)
		}
		sb.WriteString("))\n")
	}
	cmd := exec.Command(s.bin, s.args...)
	cmd.Stdin = strings.NewReader(sb.String())
	out, _ := cmd.Output()
	txt := strings.TrimSpace(string(out))
	first := txt
	rest := ""
	if i := strings.IndexByte(txt, '\n'); i >= 0 {
		first, rest = strings.TrimSpace(txt[:i]), txt[i+1:]
	}
	switch first {
	case "sat":
		return Sat, rest
	case "unsat":
		return Unsat, ""
	}
	return Unknown, ""
}

var retryTimeoutMs = 240000

// readSexp reads one complete s-expression or atom line from the solver.
func (s *Solver) readSexp() (string, error) {
	var sb strings.Builder
	depth := 0
	started := false
	for {
		line, err := s.out.ReadString('\n')
		if err != nil {
			return sb.String(), err
		}
		for _, ch := range line {
			if ch == '(' {
				depth++
				started = true
			} else if ch == ')' {
				depth--
			}
		}
		sb.WriteString(line)
		t := strings.TrimSpace(sb.String())
		if t == "" {
			continue
		}
		if !started || depth <= 0 {
			return t, nil
		}
	}
}

// Check runs (check-sat). On Sat and if nvars>0 it fetches values for v0..v{nvars-1}.
func (s *Solver) Check(nvars int, widths []uint8) (SatResult, []uint64) {
	t0 := time.Now()
	defer func() { s.Time += time.Since(t0) }()
	s.Send("(check-sat)")
	s.flush()
	resp, err := s.readSexp()
	if err != nil {
		s.Errors++
		s.restart()
		s.Queries[Unknown]++
		return Unknown, nil
	}
	var r SatResult
	switch {
	case resp == "sat":
		r = Sat
	case resp == "unsat":
		r = Unsat
	case resp == "unknown" || resp == "timeout":
		r = Unknown
	default:
		// (error ...) or anything unexpected: inconclusive
		fmt.Fprintf(os.Stderr, "solver: unexpected response %q\n", resp)
		s.Errors++
		r = Unknown
	}
	if r == Unknown && len(s.hist) > 0 {
		s.Retries++
		if r2, vals := s.retryFresh(nvars); r2 != Unknown {
			s.Rescued++
			s.Queries[r2]++
			if s.logf != nil {
				s.logf.WriteString("; RESULT " + r2.String() + "\n")
			}
			if r2 != Sat || nvars == 0 {
				return r2, nil
			}
			return r2, parseModel(vals, nvars)
		}
	}
	s.Queries[r]++
	if s.logf != nil {
		// verdict of the deciding solver, read back by the solver differential (xcheck.go)
		s.logf.WriteString("; RESULT " + r.String() + "\n")
	}
	if r != Sat || nvars == 0 {
		return r, nil
	}
	var sb strings.Builder
	sb.WriteString("(get-value (")
	for i := 0; i < nvars; i++ {
		fmt.Fprintf(&sb, "v%d ", i)
	}
	sb.WriteString("))")
	s.Send(sb.String())
	s.flush()
	resp, err = s.readSexp()
	if err != nil || strings.HasPrefix(resp, "(error") {
		fmt.Fprintf(os.Stderr, "solver: get-value failed: %q %v\n", resp, err)
		s.Errors++
		return Unknown, nil
	}
	return r, parseModel(resp, nvars)
}

func parseModel(resp string, nvars int) []uint64 {
	model := make([]uint64, nvars)
	// tokens: ((v0 #x..) (v1 #b..))
	toks := strings.FieldsFunc(resp, func(r rune) bool { return r == '(' || r == ')' || r == ' ' || r == '\n' || r == '\t' })
	for i := 0; i+1 < len(toks); i += 2 {
		name, val := toks[i], toks[i+1]
		if !strings.HasPrefix(name, "v") {
			continue
		}
		idx, e := strconv.Atoi(name[1:])
		if e != nil || idx >= nvars {
			continue
		}
		var v uint64
		switch {
		case strings.HasPrefix(val, "#x"):
			v, _ = strconv.ParseUint(val[2:], 16, 64)
		case strings.HasPrefix(val, "#b"):
			v, _ = strconv.ParseUint(val[2:], 2, 64)
		case val == "true":
			v = 1
		}
		model[idx] = v
	}
	return model
}

func (s *Solver) restart() {
	if s.cmd != nil {
		s.cmd.Process.Kill()
		s.cmd.Wait()
	}
	s.buf.Reset()
	if err := s.start(); err != nil {
		panic(err)
	}
}
