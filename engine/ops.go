package main

import (
	"fmt"
	"go/token"
	"go/types"
	"math"
	"unicode/utf8"

	"golang.org/x/tools/go/ssa"
)

func (r *Run) unop(fr *frame, instr *ssa.UnOp, x Value) Value {
	switch instr.Op {
	case token.MUL: // load
		p := x.(Ptr)
		if p.O == nil {
			r.goPanicStr("runtime error: invalid memory address or nil pointer dereference")
		}
		return r.load(p.O, p.Off, instr.Type())
	case token.ARROW:
		v, ok := r.chanRecv(x.(*ChanObj))
		if instr.CommaOk {
			return Tuple{v, mkBool(ok)}
		}
		return v
	case token.NOT:
		b := x.(Int)
		if b.N == nil {
			return mkBool(b.C == 0)
		}
		return r.fromNode(1, r.pool.BNot(b.N))
	case token.SUB:
		switch x := x.(type) {
		case Int:
			if x.N == nil {
				return mkInt(x.W, -x.C)
			}
			return r.fromNode(x.W, r.pool.Neg(x.N))
		case Float:
			return Float{F: -x.F, W: x.W}
		}
	case token.XOR:
		xi := x.(Int)
		if xi.N == nil {
			return mkInt(xi.W, ^xi.C)
		}
		return r.fromNode(xi.W, r.pool.Not(xi.N))
	}
	panic(fmt.Sprintf("unop %v on %T", instr.Op, x))
}

func (r *Run) boolNode(op Op, a, b *Node) Int { return r.fromNode(1, r.pool.Cmp(op, a, b)) }

// intBinop implements integer arithmetic/comparison with Go semantics.
func (r *Run) intBinop(op token.Token, t types.Type, x, y Int) Value {
	signed := isSigned(t)
	w := x.W
	// address arithmetic
	if x.P != nil || y.P != nil {
		return r.addrBinop(op, x, y)
	}
	if w == 1 { // booleans
		switch op {
		case token.EQL, token.NEQ:
			var res Int
			if x.N == nil && y.N == nil {
				res = mkBool(x.C == y.C)
			} else {
				p := r.pool
				a, b := r.node(x), r.node(y)
				// a == b  <=>  (a and b) or (not a and not b)
				res = r.fromNode(1, p.BOr(p.BAnd(a, b), p.BAnd(p.BNot(a), p.BNot(b))))
			}
			if op == token.NEQ {
				return r.notBool(res)
			}
			return res
		case token.LAND, token.AND:
			if x.N == nil && y.N == nil {
				return mkBool(x.C != 0 && y.C != 0)
			}
			return r.fromNode(1, r.pool.BAnd(r.node(x), r.node(y)))
		case token.LOR, token.OR:
			if x.N == nil && y.N == nil {
				return mkBool(x.C != 0 || y.C != 0)
			}
			return r.fromNode(1, r.pool.BOr(r.node(x), r.node(y)))
		}
		panic(fmt.Sprintf("bool binop %v", op))
	}
	switch op {
	case token.SHL, token.SHR:
		return r.shift(op, signed, x, y)
	}
	if y.W != w {
		panic(fmt.Sprintf("binop %v width mismatch %d vs %d", op, w, y.W))
	}
	conc := x.N == nil && y.N == nil
	var bop Op
	switch op {
	case token.ADD:
		bop = OpAdd
	case token.SUB:
		bop = OpSub
	case token.MUL:
		bop = OpMul
	case token.QUO, token.REM:
		// division by zero -> Go panic
		if y.N == nil {
			if y.C == 0 {
				r.goPanicStr("runtime error: integer divide by zero")
			}
		} else {
			if r.branch(r.pool.Cmp(OpEq, y.N, r.pool.Const(w, 0)), nil) {
				r.goPanicStr("runtime error: integer divide by zero")
			}
		}
		switch {
		case op == token.QUO && signed:
			bop = OpSDiv
		case op == token.QUO:
			bop = OpUDiv
		case signed:
			bop = OpSRem
		default:
			bop = OpURem
		}
	case token.AND:
		bop = OpAnd
	case token.OR:
		bop = OpOr
	case token.XOR:
		bop = OpXor
	case token.AND_NOT:
		if conc {
			return mkInt(w, x.C&^y.C)
		}
		return r.fromNode(w, r.pool.Bin(OpAnd, r.node(x), r.pool.Not(r.node(y))))
	case token.EQL, token.NEQ, token.LSS, token.LEQ, token.GTR, token.GEQ:
		return r.intCmp(op, signed, x, y)
	default:
		panic(fmt.Sprintf("int binop %v", op))
	}
	if conc {
		return mkInt(w, evalBin(bop, w, x.C, y.C))
	}
	return r.fromNode(w, r.pool.Bin(bop, r.node(x), r.node(y)))
}

func (r *Run) notBool(b Int) Int {
	if b.N == nil {
		return mkBool(b.C == 0)
	}
	return r.fromNode(1, r.pool.BNot(b.N))
}

func (r *Run) intCmp(op token.Token, signed bool, x, y Int) Int {
	w := x.W
	if x.N == nil && y.N == nil {
		var b bool
		if signed {
			a, c := sext64(x.C, w), sext64(y.C, w)
			switch op {
			case token.EQL:
				b = a == c
			case token.NEQ:
				b = a != c
			case token.LSS:
				b = a < c
			case token.LEQ:
				b = a <= c
			case token.GTR:
				b = a > c
			case token.GEQ:
				b = a >= c
			}
		} else {
			a, c := x.C, y.C
			switch op {
			case token.EQL:
				b = a == c
			case token.NEQ:
				b = a != c
			case token.LSS:
				b = a < c
			case token.LEQ:
				b = a <= c
			case token.GTR:
				b = a > c
			case token.GEQ:
				b = a >= c
			}
		}
		return mkBool(b)
	}
	a, c := r.node(x), r.node(y)
	lt, le := OpUlt, OpUle
	if signed {
		lt, le = OpSlt, OpSle
	}
	p := r.pool
	switch op {
	case token.EQL:
		return r.fromNode(1, p.Cmp(OpEq, a, c))
	case token.NEQ:
		return r.fromNode(1, p.BNot(p.Cmp(OpEq, a, c)))
	case token.LSS:
		return r.fromNode(1, p.Cmp(lt, a, c))
	case token.LEQ:
		return r.fromNode(1, p.Cmp(le, a, c))
	case token.GTR:
		return r.fromNode(1, p.Cmp(lt, c, a))
	case token.GEQ:
		return r.fromNode(1, p.Cmp(le, c, a))
	}
	panic("intCmp")
}

func (r *Run) shift(op token.Token, signed bool, x, y Int) Value {
	w := x.W
	if y.N == nil {
		cnt := y.C
		if x.N == nil {
			if op == token.SHL {
				return mkInt(w, evalBin(OpShl, w, x.C, cnt))
			}
			if signed {
				return mkInt(w, evalBin(OpAShr, w, x.C, cnt))
			}
			return mkInt(w, evalBin(OpLShr, w, x.C, cnt))
		}
		if cnt >= uint64(w) {
			cnt = uint64(w) // saturate; Bin handles >= w
		}
		c := r.pool.Const(w, cnt)
		switch {
		case op == token.SHL:
			return r.fromNode(w, r.pool.Bin(OpShl, x.N, c))
		case signed:
			if cnt >= uint64(w) {
				c = r.pool.Const(w, uint64(w-1))
			}
			return r.fromNode(w, r.pool.Bin(OpAShr, x.N, c))
		default:
			return r.fromNode(w, r.pool.Bin(OpLShr, x.N, c))
		}
	}
	// symbolic count: bring to width w with saturation
	p := r.pool
	var cn *Node
	if y.W <= w {
		cn = p.ZExt(y.N, w)
	} else {
		big := p.Cmp(OpUle, p.Const(y.W, uint64(w)), y.N)
		cn = p.Ite(big, p.Const(w, uint64(w)), p.Extract(y.N, w-1, 0))
	}
	xn := r.node(x)
	switch {
	case op == token.SHL:
		return r.fromNode(w, p.mk(OpShl, w, xn, cn, nil, 0))
	case signed:
		return r.fromNode(w, p.mk(OpAShr, w, xn, cn, nil, 0))
	default:
		return r.fromNode(w, p.mk(OpLShr, w, xn, cn, nil, 0))
	}
}

// addrBinop: arithmetic on uintptr values derived from pointers.
func (r *Run) addrBinop(op token.Token, x, y Int) Value {
	off := func(v Int) Int { return Int{W: 64, C: v.C, N: v.N} }
	u64 := types.Typ[types.Uint64]
	switch op {
	case token.ADD:
		if x.P != nil && y.P != nil {
			unsupported("adding two addresses")
		}
		res := r.intBinop(token.ADD, u64, off(x), off(y)).(Int)
		if x.P != nil {
			res.P = x.P
		} else {
			res.P = y.P
		}
		return res
	case token.SUB:
		if x.P != nil && y.P != nil {
			if x.P != y.P {
				unsupported("subtracting addresses of different objects")
			}
			return r.intBinop(token.SUB, u64, off(x), off(y))
		}
		if x.P == nil {
			unsupported("integer minus address")
		}
		res := r.intBinop(token.SUB, u64, off(x), off(y)).(Int)
		res.P = x.P
		return res
	case token.AND:
		// alignment tests: object bases are 8-byte aligned
		a, m := x, y
		if a.P == nil {
			a, m = y, x
		}
		if m.P == nil && m.N == nil && m.C < 8 {
			return r.intBinop(token.AND, u64, off(a), m)
		}
		unsupported("address & %v", m)
	case token.REM:
		if x.P != nil && y.P == nil && y.N == nil && (y.C == 2 || y.C == 4 || y.C == 8) {
			return r.intBinop(token.REM, u64, off(x), y)
		}
		unsupported("address %% %v", y)
	case token.EQL, token.NEQ, token.LSS, token.LEQ, token.GTR, token.GEQ:
		if x.P == y.P {
			return r.intCmp(op, false, off(x), off(y))
		}
		if op == token.EQL || op == token.NEQ {
			// different objects (or address vs integer constant such as 0)
			return mkBool(op == token.NEQ)
		}
		unsupported("ordering addresses of different objects")
	}
	unsupported("address arithmetic op %v", op)
	return nil
}

func (r *Run) binop(op token.Token, t types.Type, x, y Value) Value {
	switch x := x.(type) {
	case Int:
		return r.intBinop(op, t, x, y.(Int))
	case Float:
		yf := y.(Float)
		switch op {
		case token.ADD:
			return r.mkFloat(x.F+yf.F, x.W)
		case token.SUB:
			return r.mkFloat(x.F-yf.F, x.W)
		case token.MUL:
			return r.mkFloat(x.F*yf.F, x.W)
		case token.QUO:
			return r.mkFloat(x.F/yf.F, x.W)
		case token.EQL:
			return mkBool(x.F == yf.F)
		case token.NEQ:
			return mkBool(x.F != yf.F)
		case token.LSS:
			return mkBool(x.F < yf.F)
		case token.LEQ:
			return mkBool(x.F <= yf.F)
		case token.GTR:
			return mkBool(x.F > yf.F)
		case token.GEQ:
			return mkBool(x.F >= yf.F)
		}
	case Str:
		ys := y.(Str)
		switch op {
		case token.ADD:
			return strConcat(x, ys)
		case token.EQL:
			return r.strEq(x, ys)
		case token.NEQ:
			return r.notBool(r.strEq(x, ys))
		case token.LSS, token.LEQ, token.GTR, token.GEQ:
			c := r.bytesCompare(strBytes(x), strBytes(ys))
			return r.intCmp(op, true, c, mkInt(64, 0))
		}
	case Ptr, *MapObj, *ChanObj, *Closure, *ssa.Function, Slice, Iface, Struct, Array:
		switch op {
		case token.EQL:
			return r.valEq(t, x, y)
		case token.NEQ:
			return r.notBool(r.valEq(t, x, y))
		}
	case nil:
		switch op {
		case token.EQL:
			return mkBool(isZeroRef(y) || isNilFunc(y))
		case token.NEQ:
			return mkBool(!(isZeroRef(y) || isNilFunc(y)))
		}
	}
	panic(fmt.Sprintf("binop %v on %T, %T", op, x, y))
}

func (r *Run) mkFloat(f float64, w uint8) Float {
	if w == 32 {
		f = float64(float32(f))
	}
	return Float{F: f, W: w}
}

// valEq: equality of comparable non-scalar values.
func (r *Run) valEq(t types.Type, x, y Value) Int {
	switch x := x.(type) {
	case Int:
		return r.intCmp(token.EQL, false, x, y.(Int))
	case Float:
		return mkBool(x.F == y.(Float).F)
	case Str:
		return r.strEq(x, y.(Str))
	case Ptr:
		yp, ok := y.(Ptr)
		if !ok {
			return mkBool(false)
		}
		return mkBool(x.O == yp.O && x.Off == yp.Off)
	case *MapObj:
		ym, _ := y.(*MapObj)
		return mkBool(x == ym)
	case *ChanObj:
		yc, _ := y.(*ChanObj)
		return mkBool(x == yc)
	case *Closure:
		return mkBool(x == nil && isNilFunc(y))
	case *ssa.Function:
		return mkBool(x == nil && isNilFunc(y))
	case Slice:
		ys := y.(Slice)
		return mkBool(x.O == nil && ys.O == nil) // only comparison with nil is legal
	case Iface:
		yi := y.(Iface)
		if x.T == nil || yi.T == nil {
			return mkBool(x.T == nil && yi.T == nil)
		}
		if !types.Identical(x.T, yi.T) {
			return mkBool(false)
		}
		if !types.Comparable(x.T) {
			r.goPanicStr("runtime error: comparing uncomparable type " + x.T.String())
		}
		return r.valEq(x.T, x.V, yi.V)
	case Struct:
		ys := y.(Struct)
		res := mkBool(true)
		st := t.Underlying().(*types.Struct)
		for i := range x {
			if st.Field(i).Name() == "_" {
				continue
			}
			res = r.intBinop(token.LAND, types.Typ[types.Bool], res, r.valEq(st.Field(i).Type(), x[i], ys[i])).(Int)
		}
		return res
	case Array:
		ya := y.(Array)
		res := mkBool(true)
		et := t.Underlying().(*types.Array).Elem()
		for i := range x {
			res = r.intBinop(token.LAND, types.Typ[types.Bool], res, r.valEq(et, x[i], ya[i])).(Int)
		}
		return res
	case nil:
		return mkBool(isZeroRef(y) || isNilFunc(y))
	}
	panic(fmt.Sprintf("valEq on %T", x))
}

func strConcat(a, b Str) Str {
	s := Str{S: a.S + b.S}
	if a.N != nil || b.N != nil {
		s.N = make([]*Node, len(s.S))
		if a.N != nil {
			copy(s.N, a.N)
		}
		if b.N != nil {
			copy(s.N[len(a.S):], b.N)
		}
	}
	return s
}

type symBytes struct {
	c []byte
	n []*Node
}

func strBytes(s Str) symBytes { return symBytes{c: []byte(s.S), n: s.N} }

func (sb symBytes) node(p *Pool, i int) *Node {
	if sb.n != nil && sb.n[i] != nil {
		return sb.n[i]
	}
	return p.Const(8, uint64(sb.c[i]))
}

func (sb symBytes) isSym(i int) bool { return sb.n != nil && sb.n[i] != nil }

func (r *Run) strEq(a, b Str) Int {
	if len(a.S) != len(b.S) {
		return mkBool(false)
	}
	if a.N == nil && b.N == nil {
		return mkBool(a.S == b.S)
	}
	return r.bytesEqual(strBytes(a), strBytes(b))
}

func (r *Run) bytesEqual(a, b symBytes) Int {
	if len(a.c) != len(b.c) {
		return mkBool(false)
	}
	p := r.pool
	acc := p.tt
	for i := range a.c {
		if !a.isSym(i) && !b.isSym(i) {
			if a.c[i] != b.c[i] {
				return mkBool(false)
			}
			continue
		}
		acc = p.BAnd(acc, p.Cmp(OpEq, a.node(p, i), b.node(p, i)))
	}
	return r.fromNode(1, acc)
}

// bytesCompare returns a 64-bit -1/0/+1 (lexicographic order, shorter is smaller on common prefix).
func (r *Run) bytesCompare(a, b symBytes) Int {
	n := len(a.c)
	if len(b.c) < n {
		n = len(b.c)
	}
	p := r.pool
	var tail uint64
	switch {
	case len(a.c) < len(b.c):
		tail = ^uint64(0)
	case len(a.c) > len(b.c):
		tail = 1
	}
	// find concrete decision prefix
	allConc := true
	for i := 0; i < n; i++ {
		if a.isSym(i) || b.isSym(i) {
			allConc = false
			break
		}
		if a.c[i] != b.c[i] {
			if a.c[i] < b.c[i] {
				return mkInt(64, ^uint64(0))
			}
			return mkInt(64, 1)
		}
	}
	if allConc {
		return mkInt(64, tail)
	}
	acc := p.Const(64, tail)
	for i := n - 1; i >= 0; i-- {
		if !a.isSym(i) && !b.isSym(i) {
			if a.c[i] == b.c[i] {
				continue
			}
			if a.c[i] < b.c[i] {
				acc = p.Const(64, ^uint64(0))
			} else {
				acc = p.Const(64, 1)
			}
			continue
		}
		x, y := a.node(p, i), b.node(p, i)
		acc = p.Ite(p.Cmp(OpUlt, x, y), p.Const(64, ^uint64(0)), p.Ite(p.Cmp(OpUlt, y, x), p.Const(64, 1), acc))
	}
	return r.fromNode(64, acc)
}

// conv implements ssa.Convert.
func (r *Run) conv(dst, src types.Type, x Value) Value {
	ud, us := dst.Underlying(), src.Underlying()
	switch us := us.(type) {
	case *types.Pointer:
		if db, ok := ud.(*types.Basic); ok && db.Kind() == types.UnsafePointer {
			return x
		}
	case *types.Slice:
		// []byte / []rune -> string
		if db, ok := ud.(*types.Basic); ok && db.Info()&types.IsString != 0 {
			if eb, ok := us.Elem().Underlying().(*types.Basic); ok && (eb.Kind() == types.Byte) {
				s := x.(Slice)
				c, n := r.sliceBytes(s)
				return Str{S: string(c), N: n}
			}
			if eb, ok := us.Elem().Underlying().(*types.Basic); ok && (eb.Kind() == types.Rune) {
				s := x.(Slice)
				var rs []rune
				for i := int64(0); i < s.Len; i++ {
					iv := r.loadInt(s.O, s.Off+4*i, 32)
					rs = append(rs, rune(r.concretize(iv, "rune")))
				}
				return Str{S: string(rs)}
			}
		}
		if _, ok := ud.(*types.Slice); ok {
			return x
		}
	case *types.Basic:
		if us.Kind() == types.UnsafePointer {
			switch d := ud.(type) {
			case *types.Pointer:
				return x
			case *types.Basic:
				if d.Kind() == types.UnsafePointer {
					return x
				}
				if d.Kind() == types.Uintptr {
					p := x.(Ptr)
					if p.O == nil {
						return mkInt(64, uint64(p.Off))
					}
					return Int{W: 64, C: uint64(p.Off), P: p.O}
				}
			}
		}
		if us.Info()&types.IsString != 0 {
			s := x.(Str)
			if ds, ok := ud.(*types.Slice); ok {
				if eb, ok := ds.Elem().Underlying().(*types.Basic); ok && eb.Kind() == types.Byte {
					o := r.newObj(int64(len(s.S)), "[]byte(string)")
					copy(o.B, s.S)
					if len(s.S) > len(o.B) {
						o.ensure(int64(len(s.S)))
						copy(o.B, s.S)
					}
					for i, nd := range s.N {
						if nd != nil {
							if o.S == nil {
								o.S = make(map[int64]*Node)
							}
							o.S[int64(i)] = nd
						}
					}
					return Slice{O: o, Len: int64(len(s.S)), Cap: int64(len(s.S))}
				}
				if eb, ok := ds.Elem().Underlying().(*types.Basic); ok && eb.Kind() == types.Rune {
					if s.N != nil {
						unsupported("[]rune(symbolic string)")
					}
					rs := []rune(s.S)
					o := r.newObj(int64(4*len(rs)), "[]rune(string)")
					for i, c := range rs {
						r.storeInt(o, int64(4*i), mkInt(32, uint64(c)))
					}
					return Slice{O: o, Len: int64(len(rs)), Cap: int64(len(rs))}
				}
			}
			if db, ok := ud.(*types.Basic); ok && db.Info()&types.IsString != 0 {
				return x
			}
		}
		if us.Info()&types.IsInteger != 0 {
			xi := x.(Int)
			switch d := ud.(type) {
			case *types.Basic:
				switch {
				case d.Kind() == types.UnsafePointer:
					return r.intToPtr(xi)
				case d.Info()&types.IsInteger != 0:
					return r.convInt(xi, isSigned(src), intWidth(d))
				case d.Info()&types.IsFloat != 0:
					c := r.concretize(xi, "int->float")
					w := uint8(64)
					if d.Kind() == types.Float32 {
						w = 32
					}
					if isSigned(src) {
						return r.mkFloat(float64(sext64(c, xi.W)), w)
					}
					return r.mkFloat(float64(c), w)
				case d.Info()&types.IsString != 0:
					c := r.concretize(xi, "int->string")
					return Str{S: string(rune(sext64(c, xi.W)))}
				}
			}
		}
		if us.Info()&types.IsFloat != 0 {
			xf := x.(Float)
			if d, ok := ud.(*types.Basic); ok {
				switch {
				case d.Info()&types.IsFloat != 0:
					w := uint8(64)
					if d.Kind() == types.Float32 {
						w = 32
					}
					return r.mkFloat(xf.F, w)
				case d.Info()&types.IsInteger != 0:
					w := intWidth(d)
					if isSigned(dst) {
						return mkInt(w, uint64(int64(xf.F)))
					}
					if xf.F < 0 {
						return mkInt(w, uint64(int64(xf.F)))
					}
					if xf.F >= math.Exp2(63) {
						return mkInt(w, uint64(xf.F))
					}
					return mkInt(w, uint64(int64(xf.F)))
				}
			}
		}
	}
	unsupported("conversion %v -> %v", src, dst)
	return nil
}

func (r *Run) convInt(x Int, srcSigned bool, w uint8) Int {
	if x.W == 1 {
		panic("convInt on bool")
	}
	if x.P != nil {
		if w != 64 {
			unsupported("truncating an address")
		}
		return x
	}
	if x.N == nil {
		if srcSigned {
			return mkInt(w, uint64(sext64(x.C, x.W)))
		}
		return mkInt(w, x.C)
	}
	if w <= x.W {
		return r.fromNode(w, r.pool.Extract(x.N, w-1, 0))
	}
	if srcSigned {
		return r.fromNode(w, r.pool.SExt(x.N, w))
	}
	return r.fromNode(w, r.pool.ZExt(x.N, w))
}

func decodeRune(s string) (rune, int) { return utf8.DecodeRuneInString(s) }
