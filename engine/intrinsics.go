package main

import (
	"fmt"
	"go/types"
	"strings"

	"golang.org/x/tools/go/ssa"
)

var intrinsics = map[string]intrinsicFn{}

func lookupIntrinsic(name string) intrinsicFn {
	if f, ok := intrinsics[name]; ok {
		return f
	}
	// bbolt logger methods: discard (Panic*/Fatal* keep their control effect)
	if strings.HasPrefix(name, "(*go.etcd.io/bbolt.DefaultLogger).") {
		m := name[strings.LastIndex(name, ".")+1:]
		if strings.HasPrefix(m, "Panic") || strings.HasPrefix(m, "Fatal") {
			return func(fr *frame, fn *ssa.Function, args []Value) Value {
				fr.r.goPanicStr("logger." + m + " called")
				return nil
			}
		}
		return func(fr *frame, fn *ssa.Function, args []Value) Value { return nil }
	}
	return nil
}

const zz = "go.etcd.io/bbolt/internal/zzverif."

func argStr(v Value) string { return v.(Str).S }

func resultTuple(fn *ssa.Function) *types.Tuple { return fn.Signature.Results() }

func init() {
	I := intrinsics
	// ---------- harness API ----------
	draw := func(w uint8) intrinsicFn {
		return func(fr *frame, fn *ssa.Function, args []Value) Value {
			return fr.r.newInput(w, argStr(args[0]))
		}
	}
	I[zz+"U8"] = draw(8)
	I[zz+"U16"] = draw(16)
	I[zz+"U32"] = draw(32)
	I[zz+"U64"] = draw(64)
	I[zz+"Bool"] = func(fr *frame, fn *ssa.Function, args []Value) Value {
		v := fr.r.newInput(8, argStr(args[0]))
		if v.N == nil {
			return mkBool(v.C&1 != 0)
		}
		p := fr.r.pool
		return fr.r.fromNode(1, p.Cmp(OpEq, p.Extract(v.N, 0, 0), p.Const(1, 1)))
	}
	I[zz+"Bytes"] = func(fr *frame, fn *ssa.Function, args []Value) Value {
		r := fr.r
		n := int64(r.concInt(args[1], "Bytes-len"))
		o := r.newObj(n, "zzverif.Bytes")
		name := argStr(args[0])
		for i := int64(0); i < n; i++ {
			r.storeInt(o, i, r.newInput(8, fmt.Sprintf("%s[%d]", name, i)))
		}
		return Slice{O: o, Len: n, Cap: n}
	}
	I[zz+"Choose"] = func(fr *frame, fn *ssa.Function, args []Value) Value {
		n := int(fr.r.concInt(args[0], "Choose-n"))
		return mkInt(64, uint64(fr.r.choose(n, "h")))
	}
	I[zz+"Assume"] = func(fr *frame, fn *ssa.Function, args []Value) Value {
		fr.r.assume(args[0].(Int))
		return nil
	}
	I[zz+"Assert"] = func(fr *frame, fn *ssa.Function, args []Value) Value {
		fr.r.assert(args[0].(Int), argStr(args[1]), "", fr.caller)
		return nil
	}
	I[zz+"Assertf"] = func(fr *frame, fn *ssa.Function, args []Value) Value {
		fr.r.assert(args[0].(Int), argStr(args[1]), argStr(args[2]), fr.caller)
		return nil
	}
	I[zz+"AssertUnless"] = func(fr *frame, fn *ssa.Function, args []Value) Value {
		r := fr.r
		c, trig := args[0].(Int), args[1].(Int)
		id, key := argStr(args[2]), argStr(args[3])
		if !r.job.Known[key] {
			r.assert(c, id, "", fr.caller)
			return nil
		}
		// does the known finding still reproduce on this path?  PC ∧ ¬c ∧ trigger
		bad := r.intBinop(tokLAND, types.Typ[types.Bool], r.notBool(c), trig).(Int)
		if bad.N == nil {
			if bad.C != 0 {
				r.knownHits[key]++
			}
		} else if r.job.Concrete == nil {
			if res, _ := r.query(bad.N); res == Sat {
				r.knownHits[key]++
			}
		}
		r.assert(r.intBinop(tokLOR, types.Typ[types.Bool], c, trig).(Int), id, "", fr.caller)
		return nil
	}
	// KnownFaultRegion(trigger, key): while trigger holds and key is listed as a known finding, a fault,
	// crash or non-termination of the code under test is attributed to that finding (path dropped,
	// counted as a reproduction) instead of being reported. KnownFaultRegion(false, "") ends the region.
	I[zz+"KnownFaultRegion"] = func(fr *frame, fn *ssa.Function, args []Value) Value {
		r := fr.r
		trig := args[0].(Int)
		key := argStr(args[1])
		r.knownFaultKey = ""
		if key != "" && r.job.Known[key] && trig.N == nil && trig.C != 0 {
			r.knownFaultKey = key
		}
		return nil
	}
	// Digest(name, v): self-test observation, compared between the engine and the native run.
	I[zz+"Digest"] = func(fr *frame, fn *ssa.Function, args []Value) Value {
		v := args[1].(Int)
		if v.N != nil {
			unsupported("Digest of a symbolic value")
		}
		fr.r.digests = append(fr.r.digests, fmt.Sprintf("%s=%d", argStr(args[0]), v.C))
		return nil
	}
	I[zz+"Reach"] = func(fr *frame, fn *ssa.Function, args []Value) Value {
		fr.r.reach[argStr(args[0])]++
		return nil
	}
	I[zz+"Param"] = func(fr *frame, fn *ssa.Function, args []Value) Value {
		if v, ok := fr.r.job.Params[argStr(args[0])]; ok {
			return mkInt(64, uint64(v))
		}
		return args[1]
	}
	I[zz+"Note"] = func(fr *frame, fn *ssa.Function, args []Value) Value {
		fr.r.trace = append(fr.r.trace, "note: "+argStr(args[0]))
		return nil
	}
	I[zz+"Symbolic"] = func(fr *frame, fn *ssa.Function, args []Value) Value {
		return mkBool(fr.r.job.Concrete == nil)
	}
	I[zz+"IsConcrete"] = func(fr *frame, fn *ssa.Function, args []Value) Value {
		switch v := args[0].(type) {
		case Int:
			return mkBool(v.N == nil)
		}
		return mkBool(true)
	}
	I[zz+"MapOrderAny"] = func(fr *frame, fn *ssa.Function, args []Value) Value {
		fr.r.mapRotate = args[0].(Int).C != 0
		return nil
	}
	I[zz+"Ite64"] = func(fr *frame, fn *ssa.Function, args []Value) Value {
		c, a, b := args[0].(Int), args[1].(Int), args[2].(Int)
		if c.N == nil {
			if c.C != 0 {
				return a
			}
			return b
		}
		return fr.r.fromNode(64, fr.r.pool.Ite(c.N, fr.r.node(a), fr.r.node(b)))
	}
	I[zz+"And"] = func(fr *frame, fn *ssa.Function, args []Value) Value {
		return fr.r.intBinop(tokLAND, types.Typ[types.Bool], args[0].(Int), args[1].(Int))
	}
	I[zz+"Or"] = func(fr *frame, fn *ssa.Function, args []Value) Value {
		return fr.r.intBinop(tokLOR, types.Typ[types.Bool], args[0].(Int), args[1].(Int))
	}
	I[zz+"Implies"] = func(fr *frame, fn *ssa.Function, args []Value) Value {
		na := fr.r.notBool(args[0].(Int))
		return fr.r.intBinop(tokLOR, types.Typ[types.Bool], na, args[1].(Int))
	}
	// SameExpr(a, b): the two values are the same expression (structural identity after
	// simplification) – decided without the solver.
	I[zz+"SameExpr"] = func(fr *frame, fn *ssa.Function, args []Value) Value {
		a, b := args[0].(Int), args[1].(Int)
		if a.N == nil && b.N == nil {
			return mkBool(a.C == b.C)
		}
		return mkBool(a.N == b.N)
	}
	// StubReturn64(fn, v): from now on calls of the named function return v (a summary the harness
	// takes responsibility for); StubClear removes all stubs.
	I[zz+"StubReturn64"] = func(fr *frame, fn *ssa.Function, args []Value) Value {
		if fr.r.stubs == nil {
			fr.r.stubs = map[string]Value{}
		}
		fr.r.stubs[argStr(args[0])] = args[1]
		return nil
	}
	I[zz+"StubClear"] = func(fr *frame, fn *ssa.Function, args []Value) Value {
		fr.r.stubs = nil
		return nil
	}
	// Concretize64(v): forks over every feasible value of v (decided by the solver) and returns it concrete.
	I[zz+"Concretize64"] = func(fr *frame, fn *ssa.Function, args []Value) Value {
		v := args[0].(Int)
		return mkInt(64, fr.r.concretize(v, "harness"))
	}
	I[zz+"MutexHeld"] = func(fr *frame, fn *ssa.Function, args []Value) Value {
		p := args[0].(Ptr)
		ls := fr.r.locks[lockKey{p.O, p.Off}]
		return mkBool(ls != nil && ls.writer)
	}
	I[zz+"RWMutexState"] = func(fr *frame, fn *ssa.Function, args []Value) Value {
		p := args[0].(Ptr)
		ls := fr.r.locks[lockKey{p.O, p.Off}]
		if ls == nil {
			return Tuple{mkBool(false), mkInt(64, 0)}
		}
		return Tuple{mkBool(ls.writer), mkInt(64, uint64(ls.readers))}
	}

	// ---------- bytes / strings ----------
	I["bytes.Compare"] = func(fr *frame, fn *ssa.Function, args []Value) Value {
		r := fr.r
		ac, an := r.sliceBytes(args[0].(Slice))
		bc, bn := r.sliceBytes(args[1].(Slice))
		return r.bytesCompare(symBytes{ac, an}, symBytes{bc, bn})
	}
	I["bytes.Equal"] = func(fr *frame, fn *ssa.Function, args []Value) Value {
		r := fr.r
		ac, an := r.sliceBytes(args[0].(Slice))
		bc, bn := r.sliceBytes(args[1].(Slice))
		return r.bytesEqual(symBytes{ac, an}, symBytes{bc, bn})
	}
	I["internal/bytealg.Equal"] = I["bytes.Equal"]
	I["internal/bytealg.Compare"] = I["bytes.Compare"]
	I["strings.Compare"] = func(fr *frame, fn *ssa.Function, args []Value) Value {
		return fr.r.bytesCompare(strBytes(args[0].(Str)), strBytes(args[1].(Str)))
	}
	I["internal/bytealg.IndexByteString"] = func(fr *frame, fn *ssa.Function, args []Value) Value {
		s := args[0].(Str)
		c := args[1].(Int)
		if s.N != nil || c.N != nil {
			unsupported("IndexByteString on symbolic data")
		}
		return mkInt(64, uint64(int64(strings.IndexByte(s.S, byte(c.C)))))
	}
	I["internal/bytealg.IndexByte"] = func(fr *frame, fn *ssa.Function, args []Value) Value {
		bc, bn := fr.r.sliceBytes(args[0].(Slice))
		c := args[1].(Int)
		if bn != nil || c.N != nil {
			unsupported("IndexByte on symbolic data")
		}
		for i, b := range bc {
			if b == byte(c.C) {
				return mkInt(64, uint64(i))
			}
		}
		return mkInt(64, ^uint64(0))
	}
	I["internal/bytealg.CountString"] = func(fr *frame, fn *ssa.Function, args []Value) Value {
		s := args[0].(Str)
		return mkInt(64, uint64(strings.Count(s.S, string([]byte{byte(args[1].(Int).C)}))))
	}
	I["internal/bytealg.IndexString"] = func(fr *frame, fn *ssa.Function, args []Value) Value {
		return mkInt(64, uint64(int64(strings.Index(args[0].(Str).S, args[1].(Str).S))))
	}
	I["strings.Index"] = I["internal/bytealg.IndexString"]
	I["strings.IndexByte"] = I["internal/bytealg.IndexByteString"]

	// ---------- sort (reflection-backed helpers) ----------
	I["sort.SliceIsSorted"] = func(fr *frame, fn *ssa.Function, args []Value) Value {
		r := fr.r
		s := args[0].(Iface).V.(Slice)
		less := args[1]
		for i := s.Len - 1; i > 0; i-- {
			b := r.call(fr, less, []Value{mkInt(64, uint64(i)), mkInt(64, uint64(i-1))}, fr.pos).(Int)
			var lt bool
			if b.N == nil {
				lt = b.C != 0
			} else {
				lt = r.branch(b.N, fr)
			}
			if lt {
				return mkBool(false)
			}
		}
		return mkBool(true)
	}
	I["sort.Slice"] = func(fr *frame, fn *ssa.Function, args []Value) Value {
		r := fr.r
		iv := args[0].(Iface)
		s := iv.V.(Slice)
		es := sizeof(iv.T.Underlying().(*types.Slice).Elem())
		less := args[1]
		tmp := r.newObj(es, "sort.Slice-tmp")
		lt := func(i, k int64) bool {
			b := r.call(fr, less, []Value{mkInt(64, uint64(i)), mkInt(64, uint64(k))}, fr.pos).(Int)
			if b.N == nil {
				return b.C != 0
			}
			return r.branch(b.N, fr)
		}
		// insertion sort (stable; same result as any correct sort for a strict weak order)
		for i := int64(1); i < s.Len; i++ {
			for k := i; k > 0 && lt(k, k-1); k-- {
				r.memmove(tmp, 0, s.O, s.Off+k*es, es)
				r.memmove(s.O, s.Off+k*es, s.O, s.Off+(k-1)*es, es)
				r.memmove(s.O, s.Off+(k-1)*es, tmp, 0, es)
			}
		}
		return nil
	}
	I["sort.SliceStable"] = I["sort.Slice"]

	// ---------- sync ----------
	I["(*sync.Mutex).Lock"] = func(fr *frame, fn *ssa.Function, args []Value) Value {
		fr.r.mutexLock(args[0].(Ptr))
		return nil
	}
	I["(*sync.Mutex).Unlock"] = func(fr *frame, fn *ssa.Function, args []Value) Value {
		fr.r.mutexUnlock(args[0].(Ptr))
		return nil
	}
	I["(*sync.Mutex).TryLock"] = func(fr *frame, fn *ssa.Function, args []Value) Value {
		ls := fr.r.lockOf(args[0].(Ptr))
		if ls.writer || ls.readers > 0 {
			return mkBool(false)
		}
		ls.writer = true
		return mkBool(true)
	}
	I["(*sync.RWMutex).Lock"] = I["(*sync.Mutex).Lock"]
	I["(*sync.RWMutex).Unlock"] = I["(*sync.Mutex).Unlock"]
	I["(*sync.RWMutex).RLock"] = func(fr *frame, fn *ssa.Function, args []Value) Value {
		fr.r.rwRLock(args[0].(Ptr))
		return nil
	}
	I["(*sync.RWMutex).RUnlock"] = func(fr *frame, fn *ssa.Function, args []Value) Value {
		fr.r.rwRUnlock(args[0].(Ptr))
		return nil
	}
	I["(*sync.Once).Do"] = func(fr *frame, fn *ssa.Function, args []Value) Value {
		r := fr.r
		p := args[0].(Ptr)
		k := lockKey{p.O, p.Off}
		os := r.onces[k]
		if os == nil {
			os = &onceState{}
			r.onces[k] = os
		}
		if os.done {
			return nil
		}
		os.done = true
		r.call(fr, args[1], nil, fr.pos)
		return nil
	}
	I["(*sync.Pool).Get"] = func(fr *frame, fn *ssa.Function, args []Value) Value {
		r := fr.r
		p := args[0].(Ptr)
		k := lockKey{p.O, p.Off}
		if l := r.pools[k]; len(l) > 0 {
			v := l[len(l)-1]
			r.pools[k] = l[:len(l)-1]
			return v
		}
		// call New
		pt := deref(fn.Signature.Recv().Type())
		st := pt.Underlying().(*types.Struct)
		offs := fieldOffsets(pt)
		for i := 0; i < st.NumFields(); i++ {
			if st.Field(i).Name() == "New" {
				nf := r.load(p.O, p.Off+offs[i], st.Field(i).Type())
				if isNilFunc(nf) {
					return Iface{}
				}
				return r.call(fr, nf, nil, fr.pos)
			}
		}
		return Iface{}
	}
	I["(*sync.Pool).Put"] = func(fr *frame, fn *ssa.Function, args []Value) Value {
		p := args[0].(Ptr)
		k := lockKey{p.O, p.Off}
		fr.r.pools[k] = append(fr.r.pools[k], args[1])
		return nil
	}
	I["(*sync.WaitGroup).Add"] = func(fr *frame, fn *ssa.Function, args []Value) Value {
		r := fr.r
		p := args[0].(Ptr)
		ls := r.lockOf(p)
		ls.readers += int(int64(r.concInt(args[1], "wg.Add")))
		if ls.readers == 0 {
			r.wakeAll()
		}
		return nil
	}
	I["(*sync.WaitGroup).Done"] = func(fr *frame, fn *ssa.Function, args []Value) Value {
		r := fr.r
		ls := r.lockOf(args[0].(Ptr))
		ls.readers--
		if ls.readers == 0 {
			r.wakeAll()
		}
		return nil
	}
	I["(*sync.WaitGroup).Wait"] = func(fr *frame, fn *ssa.Function, args []Value) Value {
		r := fr.r
		ls := r.lockOf(args[0].(Ptr))
		r.blockUntil("WaitGroup.Wait", func() bool { return ls.readers == 0 })
		return nil
	}

	// ---------- sync/atomic ----------
	atomicLoad := func(w uint8) intrinsicFn {
		return func(fr *frame, fn *ssa.Function, args []Value) Value {
			p := args[0].(Ptr)
			return fr.r.loadInt(p.O, p.Off, w)
		}
	}
	atomicStore := func(w uint8) intrinsicFn {
		return func(fr *frame, fn *ssa.Function, args []Value) Value {
			p := args[0].(Ptr)
			fr.r.storeInt(p.O, p.Off, args[1].(Int))
			return nil
		}
	}
	atomicAdd := func(w uint8) intrinsicFn {
		return func(fr *frame, fn *ssa.Function, args []Value) Value {
			r := fr.r
			p := args[0].(Ptr)
			old := r.loadInt(p.O, p.Off, w)
			nv := r.intBinop(tokADD, types.Typ[types.Uint64], old, args[1].(Int)).(Int)
			r.storeInt(p.O, p.Off, nv)
			return nv
		}
	}
	atomicSwap := func(w uint8) intrinsicFn {
		return func(fr *frame, fn *ssa.Function, args []Value) Value {
			r := fr.r
			p := args[0].(Ptr)
			old := r.loadInt(p.O, p.Off, w)
			r.storeInt(p.O, p.Off, args[1].(Int))
			return old
		}
	}
	atomicCAS := func(w uint8) intrinsicFn {
		return func(fr *frame, fn *ssa.Function, args []Value) Value {
			r := fr.r
			p := args[0].(Ptr)
			old := r.loadInt(p.O, p.Off, w)
			eq := r.intCmp(tokEQL, false, old, args[1].(Int))
			var b bool
			if eq.N == nil {
				b = eq.C != 0
			} else {
				b = r.branch(eq.N, fr)
			}
			if b {
				r.storeInt(p.O, p.Off, args[2].(Int))
			}
			return mkBool(b)
		}
	}
	for _, t := range []struct {
		n string
		w uint8
	}{{"Int32", 32}, {"Uint32", 32}, {"Int64", 64}, {"Uint64", 64}, {"Uintptr", 64}} {
		I["sync/atomic.Load"+t.n] = atomicLoad(t.w)
		I["sync/atomic.Store"+t.n] = atomicStore(t.w)
		I["sync/atomic.Add"+t.n] = atomicAdd(t.w)
		I["sync/atomic.Swap"+t.n] = atomicSwap(t.w)
		I["sync/atomic.CompareAndSwap"+t.n] = atomicCAS(t.w)
	}
	I["sync/atomic.LoadPointer"] = func(fr *frame, fn *ssa.Function, args []Value) Value {
		p := args[0].(Ptr)
		return fr.r.load(p.O, p.Off, types.Typ[types.UnsafePointer])
	}
	I["sync/atomic.StorePointer"] = func(fr *frame, fn *ssa.Function, args []Value) Value {
		p := args[0].(Ptr)
		fr.r.store(p.O, p.Off, types.Typ[types.UnsafePointer], args[1])
		return nil
	}

	// ---------- runtime ----------
	nop := func(fr *frame, fn *ssa.Function, args []Value) Value { return nil }
	I["runtime.KeepAlive"] = nop
	I["runtime.SetFinalizer"] = nop
	I["runtime.Gosched"] = func(fr *frame, fn *ssa.Function, args []Value) Value { fr.r.yield("Gosched"); return nil }
	I["runtime.GC"] = nop
	I["runtime.GOMAXPROCS"] = func(fr *frame, fn *ssa.Function, args []Value) Value { return mkInt(64, 16) }
	I["runtime.NumCPU"] = func(fr *frame, fn *ssa.Function, args []Value) Value { return mkInt(64, 16) }
	I["runtime/debug.Stack"] = func(fr *frame, fn *ssa.Function, args []Value) Value {
		return fr.r.bytesToSlice([]byte("<stack>"))
	}
	I["runtime/debug.PrintStack"] = nop
	I["os.Getpagesize"] = func(fr *frame, fn *ssa.Function, args []Value) Value { return mkInt(64, 4096) }
	I["os.Getenv"] = func(fr *frame, fn *ssa.Function, args []Value) Value {
		return Str{S: fr.r.vos.env[argStr(args[0])]}
	}
	I["os.Exit"] = func(fr *frame, fn *ssa.Function, args []Value) Value {
		panic(fatalFault{"os.Exit called"})
	}
	I["os.Setenv"] = func(fr *frame, fn *ssa.Function, args []Value) Value {
		fr.r.vos.env[argStr(args[0])] = argStr(args[1])
		return Iface{}
	}

	// ---------- time ----------
	const hasMono = uint64(1) << 63
	I["time.Now"] = func(fr *frame, fn *ssa.Function, args []Value) Value {
		return Struct{mkInt(64, hasMono), mkInt(64, uint64(fr.r.vos.now)), Ptr{}}
	}
	I["time.runtimeNano"] = func(fr *frame, fn *ssa.Function, args []Value) Value {
		return mkInt(64, uint64(fr.r.vos.now))
	}
	I["time.Since"] = func(fr *frame, fn *ssa.Function, args []Value) Value {
		t := args[0].(Struct)
		return fr.r.intBinop(tokSUB, types.Typ[types.Int64], mkInt(64, uint64(fr.r.vos.now)), t[1].(Int))
	}
	I["time.Sleep"] = func(fr *frame, fn *ssa.Function, args []Value) Value {
		d := int64(fr.r.concInt(args[0], "sleep"))
		if d > 0 {
			fr.r.vos.now += d
		}
		fr.r.yield("sleep")
		return nil
	}
	I["time.AfterFunc"] = func(fr *frame, fn *ssa.Function, args []Value) Value {
		r := fr.r
		d := int64(r.concInt(args[0], "afterfunc"))
		tm := &vTimer{when: r.vos.now + d}
		r.spawnG(args[1], nil, fr.pos, tm)
		rt := deref(fn.Signature.Results().At(0).Type())
		o := r.newObj(sizeof(rt), "time.Timer")
		o.Ext = tm
		return Ptr{O: o}
	}
	I["(*time.Timer).Stop"] = func(fr *frame, fn *ssa.Function, args []Value) Value {
		p := args[0].(Ptr)
		tm, _ := p.O.Ext.(*vTimer)
		if tm == nil {
			return mkBool(false)
		}
		was := !tm.fired && !tm.stopped
		tm.stopped = true
		return mkBool(was)
	}

	// ---------- fmt / log ----------
	I["fmt.Sprintf"] = func(fr *frame, fn *ssa.Function, args []Value) Value {
		return Str{S: fr.r.sprintf(fr, argStr(args[0]), args[1].(Slice))}
	}
	I["fmt.Sprint"] = func(fr *frame, fn *ssa.Function, args []Value) Value {
		return Str{S: fr.r.sprint(fr, args[0].(Slice), "")}
	}
	I["fmt.Sprintln"] = func(fr *frame, fn *ssa.Function, args []Value) Value {
		return Str{S: fr.r.sprint(fr, args[0].(Slice), " ") + "\n"}
	}
	I["fmt.Errorf"] = func(fr *frame, fn *ssa.Function, args []Value) Value {
		r := fr.r
		format := argStr(args[0])
		msg := r.sprintf(fr, format, args[1].(Slice))
		var wrapped Value
		if strings.Contains(format, "%w") {
			for _, a := range r.ifaceArgs(args[1].(Slice)) {
				if a.T != nil && r.implements(a.T, errorType.Underlying().(*types.Interface)) {
					wrapped = a
					break
				}
			}
		}
		return r.makeError(msg, wrapped)
	}
	I["errors.Is"] = func(fr *frame, fn *ssa.Function, args []Value) Value {
		return mkBool(fr.r.errorsIs(fr, args[0].(Iface), args[1].(Iface), 0))
	}
	I["errors.Unwrap"] = func(fr *frame, fn *ssa.Function, args []Value) Value {
		e := args[0].(Iface)
		if e.T == nil {
			return Iface{}
		}
		if v, ok := fr.r.callMethodIfAny(fr, e, "Unwrap"); ok {
			if iv, isI := v.(Iface); isI {
				return iv
			}
		}
		return Iface{}
	}
	I["errors.New"] = func(fr *frame, fn *ssa.Function, args []Value) Value {
		return fr.r.makeError(argStr(args[0]), nil)
	}
	discardN := func(fr *frame, fn *ssa.Function, args []Value) Value {
		return Tuple{mkInt(64, 0), Iface{}}
	}
	fprint := func(fr *frame, fn *ssa.Function, args []Value) Value {
		r := fr.r
		var s string
		switch fn.Name() {
		case "Fprintf":
			s = r.sprintf(fr, argStr(args[1]), args[2].(Slice))
		case "Fprintln":
			s = r.sprint(fr, args[1].(Slice), " ") + "\n"
		default:
			s = r.sprint(fr, args[1].(Slice), "")
		}
		return r.writeTo(fr, args[0].(Iface), s)
	}
	I["fmt.Fprintf"] = fprint
	I["fmt.Fprintln"] = fprint
	I["fmt.Fprint"] = fprint
	I["fmt.Printf"] = discardN
	I["fmt.Println"] = discardN
	I["fmt.Print"] = discardN
	I["log.New"] = func(fr *frame, fn *ssa.Function, args []Value) Value {
		rt := deref(fn.Signature.Results().At(0).Type())
		return Ptr{O: fr.r.newObj(sizeof(rt), "log.Logger")}
	}
	for _, m := range []string{"Printf", "Println", "Print"} {
		I["(*log.Logger)."+m] = nop
		I["log."+m] = nop
	}
	I["(*log.Logger).Output"] = func(fr *frame, fn *ssa.Function, args []Value) Value { return Iface{} }
}
