#!/bin/bash
# seedmatrix.sh <seeddir>: applies each seeded mutation to /repo, runs its property's quick check (and
# extra checks listed in meta "also"), restores the tree; prints one line per (seed, check).
SD=${1:-/tmp/seed}
cd /verif
git -C /repo status --porcelain | grep -q . && { echo "/repo not clean"; exit 1; }
for d in $SD/C*.out/m* ; do
  id=$(basename $(dirname $d) .out); m=$(basename $d)
  if ! git -C /repo apply --check $d/patch.diff 2>/dev/null; then
     if git -C /repo apply --3way $d/patch.diff >/dev/null 2>&1; then :; else echo "$id/$m patch-does-not-apply"; git -C /repo checkout -- . ; git -C /repo reset -q; continue; fi
  else git -C /repo apply $d/patch.diff; fi
  for chk in $id $(cat $d/also 2>/dev/null); do
    timeout -k 5 1500 ./bin/gosym run -property $chk -tier quick -out /tmp/matrix_ev.json -no-native > /tmp/matrix_run.log 2>&1; rc=$?
    ids=$(grep -o "replay=[^ ]*" /tmp/matrix_run.log | sed 's/.*\]-//; s/.json//' | sort -u | head -4 | tr '\n' ',')
    echo "$id/$m check=$chk rc=$rc $ids"
  done
  git -C /repo checkout -- . ; git -C /repo reset -q
done
