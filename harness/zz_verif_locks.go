package bbolt

// D-LOCKS / D-READONLY (C17): file locks, read-only mode, and the memory handed to applications.

import (
	"time"

	berrors "go.etcd.io/bbolt/errors"
	zz "go.etcd.io/bbolt/internal/zzverif"
)

// HarnessLocks: programs of Open(rw|ro, timeout)/Close events from several DB handles (separate
// open-file-descriptions, as separate processes have) on one file.
func HarnessLocks() {
	c := zzConfig()
	path := zz.TempPath("locks.db")
	db0 := zzMustOpen(path, c, "locks/create")
	zzSetup(db0, 0)
	zz.Assert(db0.Close() == nil, "locks/create-close")
	ex, sh := zz.LockHolders(path)
	zz.Assert(ex == 0 && sh == 0, "locks/close-releases-lock")
	type handle struct {
		db *DB
		ro bool
	}
	var open []handle
	nev := zz.Param("events", 4)
	for e := 0; e < nev; e++ {
		kind := zz.Choose(3) // 0 open rw, 1 open ro, 2 close one
		if kind == 2 && len(open) == 0 {
			kind = zz.Choose(2)
		}
		if kind == 2 {
			zz.Reach("close")
			i := zz.Choose(len(open))
			if zz.Param("faults", 0) == 1 && zz.Choose(2) == 1 {
				// a failing unmap (or unlock) inside Close: Close may report it, but the handle is gone
				// and its lock with it ("closing releases the lock")
				zz.FaultAnyOnce("munmap")
				cerr := open[i].db.Close()
				fired := zz.FaultFired()
				zz.FaultDisarm()
				if fired {
					zz.Reach("close-with-fault")
					zz.Assert(cerr != nil, "locks/faulted-close-reports-error")
				} else {
					zz.Assert(cerr == nil, "locks/close")
				}
			} else {
				zz.Assert(open[i].db.Close() == nil, "locks/close")
			}
			open = append(open[:i], open[i+1:]...)
			nx, ns := 0, 0
			for _, h := range open {
				if h.ro {
					ns++
				} else {
					nx++
				}
			}
			ex, sh := zz.LockHolders(path)
			zz.Assert(ex == nx && sh == ns, "locks/close-releases-exactly-its-lock")
		} else {
			ro := kind == 1
			o := c.options()
			o.ReadOnly = ro
			o.Timeout = 120 * time.Millisecond
			withFault := zz.Param("faults", 0) == 1 && zz.Choose(2) == 1
			if withFault {
				zz.FaultAnyOnce("stat,mmap,read,flock")
			}
			ev0 := zz.EventCount()
			t0 := zz.ClockNow()
			db, err := Open(path, 0600, o)
			elapsed := zz.ClockNow() - t0
			fired := zz.FaultFired()
			zz.FaultDisarm()
			anyRW, anyOpen := false, len(open) > 0
			for _, h := range open {
				if !h.ro {
					anyRW = true
				}
			}
			blocked := anyRW || (!ro && anyOpen)
			switch {
			case fired && err != nil:
				// (a fault may also be absorbed, e.g. a failed page-size probe falls back to the other meta)
				zz.Reach("open-failed-by-fault")
				zz.Assert(db == nil, "locks/faulted-open-returns-no-handle")
			case blocked:
				zz.Reach("open-refused")
				zz.Assert(err == berrors.ErrTimeout && db == nil, "locks/conflicting-open-times-out")
				zz.Assert(elapsed <= int64(o.Timeout)+int64(flockRetryTimeout), "locks/timeout-is-honoured")
			default:
				zz.Reach("open-granted")
				zz.Assert(err == nil && db != nil, "locks/compatible-open-succeeds")
			}
			// what was requested from the OS
			for i := ev0; i < zz.EventCount(); i++ {
				k, p, a, _, ok := zz.Event(i)
				if p != path || !ok {
					continue
				}
				switch k {
				case "flock":
					if a&8 == 0 { // not an unlock
						want := int64(1 | 4) // LOCK_SH|LOCK_NB
						if !ro {
							want = 2 | 4 // LOCK_EX|LOCK_NB
						}
						zz.Assert(a == want, "locks/flock-mode")
					}
				case "mmap":
					zz.Assert(a == 1, "locks/mmap-PROT_READ-only")
				case "open":
					if ro {
						zz.Assert(a&3 == 0, "locks/read-only-open-uses-O_RDONLY")
					}
				}
			}
			if err == nil && db != nil {
				open = append(open, handle{db, ro})
			}
			// a failed open leaves no lock and no descriptor behind
			nx, ns := 0, 0
			for _, h := range open {
				if h.ro {
					ns++
				} else {
					nx++
				}
			}
			ex, sh := zz.LockHolders(path)
			zz.Assert(ex == nx && sh == ns, "locks/lock-table-matches-open-handles")
		}
	}
	for _, h := range open {
		zz.Assert(h.db.Close() == nil, "locks/final-close")
	}
	ex, sh = zz.LockHolders(path)
	zz.Assert(ex == 0 && sh == 0, "locks/all-released")
	zz.Reach("done")
}

// HarnessReadOnly: API programs against a read-only database never change the file; memory handed
// out by a read transaction is never a writable view of the database.
func HarnessReadOnly() {
	c := zzConfig()
	path := zz.TempPath("ro.db")
	db0 := zzMustOpen(path, c, "ro/create")
	zzSetup(db0, zz.Param("setup", 2))
	want := zzViewDump(db0, "ro/dump")
	zz.Assert(db0.Close() == nil, "ro/create-close")
	before := zz.FileBytes(path)
	o := c.options()
	o.ReadOnly = true
	o.PreLoadFreelist = zz.Choose(2) == 1
	{
		// a read-only open never creates or initialises anything: an existing empty file stays empty
		empty := zz.TempPath("ro-empty.db")
		zz.WriteFileBytes(empty, []byte{})
		edb, err, p := zzOpenCatch(empty, o)
		zz.Assert(!p, "ro/empty-file-no-panic")
		zz.Assert(err != nil && edb == nil, "ro/empty-file-read-only-open-fails")
		zz.Assert(zz.FileSize(empty) == 0, "ro/empty-file-not-written")
		if edb != nil {
			_ = edb.Close()
		}
	}
	db, err := Open(path, 0400, o)
	zz.Assert(err == nil, "ro/open")
	ev0 := zz.EventCount()
	for s := 0; s < zz.Param("steps", 3); s++ {
		switch zz.Choose(7) {
		case 0:
			zz.Reach("Begin(true)")
			tx, err := db.Begin(true)
			zz.Assert(err == berrors.ErrDatabaseReadOnly && tx == nil, "ro/write-tx-refused")
		case 1:
			zz.Reach("Update")
			err := db.Update(func(tx *Tx) error { return tx.Bucket([]byte("b")).Put([]byte("x"), []byte("y")) })
			zz.Assert(err == berrors.ErrDatabaseReadOnly, "ro/update-refused")
		case 2:
			zz.Reach("Batch")
			err := db.Batch(func(tx *Tx) error { return tx.Bucket([]byte("b")).Put([]byte("x"), []byte("y")) })
			zz.Assert(err == berrors.ErrDatabaseReadOnly, "ro/batch-refused")
		case 3:
			zz.Reach("View-mutations")
			_ = db.View(func(tx *Tx) error {
				b := tx.Bucket([]byte("b"))
				zz.Assert(b.Put(zzSymKey("rok"), []byte("v")) == berrors.ErrTxNotWritable, "ro/put-refused")
				zz.Assert(b.Delete([]byte("k00")) == berrors.ErrTxNotWritable, "ro/delete-refused")
				_, err := b.CreateBucket([]byte("n"))
				zz.Assert(err == berrors.ErrTxNotWritable, "ro/create-bucket-refused")
				zz.Assert(tx.DeleteBucket([]byte("b")) == berrors.ErrTxNotWritable, "ro/delete-bucket-refused")
				cur := b.Cursor()
				cur.First()
				zz.Assert(cur.Delete() == berrors.ErrTxNotWritable, "ro/cursor-delete-refused")
				_, err = b.NextSequence()
				zz.Assert(err == berrors.ErrTxNotWritable, "ro/next-sequence-refused")
				return nil
			})
		case 4:
			zz.Reach("handed-out-memory")
			_ = db.View(func(tx *Tx) error {
				b := tx.Bucket([]byte("b"))
				cur := b.Cursor()
				k, v := cur.Seek(zzSymKey("seekro"))
				if k != nil {
					zz.Assert(zz.IsReadOnlyMem(k) && !zz.TryStore(k, 0, 'X'), "ro/key-memory-is-not-writable")
					if v != nil && len(v) > 0 {
						zz.Assert(zz.IsReadOnlyMem(v) && !zz.TryStore(v, len(v)-1, 'X'), "ro/value-memory-is-not-writable")
					}
				}
				// inline bucket content
				in := b.Bucket([]byte("in"))
				if in != nil {
					iv := in.Get([]byte("i1"))
					if iv != nil {
						wrote := zz.TryStore(iv, 0, 'Z')
						zz.Assert(!wrote || !zz.IsReadOnlyMem(iv), "ro/inline-bucket-memory-private-or-protected")
					}
				}
				return nil
			})
		case 5:
			zz.Reach("Sync/Stats")
			_ = db.Stats()
			_ = db.Sync()
		case 6:
			zz.Reach("WriteTo-other-file")
			_ = db.View(func(tx *Tx) error {
				return tx.CopyFile(zz.TempPath("ro.copy"), 0600)
			})
		}
	}
	zz.Assert(zzSameKVs(zzViewDump(db, "ro/dump2"), want), "ro/content-unchanged")
	zz.Assert(db.Close() == nil, "ro/close")
	for i := ev0; i < zz.EventCount(); i++ {
		k, p, _, _, _ := zz.Event(i)
		zz.Assert(!(p == path && (k == "pwrite" || k == "write" || k == "ftruncate")), "ro/no-write-to-file")
	}
	after := zz.FileBytes(path)
	zz.Assert(len(after) == len(before), "ro/length-unchanged")
	same := true
	for i := range after {
		if i < len(before) {
			same = zz.And(same, after[i] == before[i])
		}
	}
	zz.Assert(same, "ro/bytes-unchanged")
	zz.Reach("done")
}
