package main

import (
	"encoding/json"
	"fmt"
	"os"
	"os/exec"
	"path/filepath"
	"strings"
	"time"
)

type ReplayFile struct {
	Property  string           `json:"property"`
	Harness   string           `json:"harness"`
	Fn        string           `json:"fn"`
	Params    map[string]int64 `json:"params"`
	MapRot    bool             `json:"maprot"`
	SchedAll  bool             `json:"sched_all"`
	PreemptBound int           `json:"preempt_bound"`
	PreemptFuncs []string      `json:"preempt_funcs"`
	Unwind    int32            `json:"unwind"`
	MaxSteps  int64            `json:"max_steps"`
	Cex       *Counterexample  `json:"counterexample"`
	EngineRe  string           `json:"engine_concrete_replay"`
	Native    map[string]interface{} `json:"native"`
	RepoRev   string           `json:"repo_rev"`
	Created   string           `json:"created"`
	Confirmed bool             `json:"confirmed"`
	Path      string           `json:"-"`
	Why       string           `json:"-"`
}

func repoRev() string {
	out, err := exec.Command("git", "-C", repoDir, "rev-parse", "--short", "HEAD").Output()
	if err != nil {
		return "?"
	}
	rev := strings.TrimSpace(string(out))
	if st, _ := exec.Command("git", "-C", repoDir, "status", "--porcelain").Output(); len(strings.TrimSpace(string(st))) > 0 {
		rev += "+dirty"
	}
	return rev
}

// engineConcrete re-executes a counterexample with all inputs concrete; returns the failing ids.
func engineConcrete(P *Program, fnName string, params map[string]int64, mapRot, schedAll bool, preempt int, pfuncs []string, unwind int32, maxSteps int64, cx *Counterexample) (map[string]*Counterexample, []string) {
	fn := P.findFunc(fnName)
	if fn == nil {
		return nil, []string{"function not found"}
	}
	job := &Job{P: P, Fn: fn, Name: "replay", Params: params, MapRot: mapRot, SchedAll: schedAll, PreemptBound: preempt, PreemptFuncs: pfuncs, Unwind: unwind, MaxSteps: maxSteps, Concrete: cx, Known: map[string]bool{}}
	job.Explore(1, "", nil, "")
	return job.Cexs, append(job.EngineErrors, job.Inconclusive...)
}

func confirmAndWrite(P *Program, job *Job, hs HarnessSpec, cfg map[string]int64, params map[string]int64, cx *Counterexample, prop string, noNative bool) *ReplayFile {
	rf := &ReplayFile{Property: prop, Harness: job.Name, Fn: hs.Fn, Params: params, MapRot: hs.MapRot, SchedAll: hs.SchedAll, PreemptBound: job.PreemptBound, PreemptFuncs: hs.PreemptFuncs,
		Unwind: hs.Unwind, MaxSteps: hs.MaxSteps, Cex: cx, RepoRev: repoRev(), Created: time.Now().UTC().Format(time.RFC3339)}
	cexs, errs := engineConcrete(P, hs.Fn, params, hs.MapRot, hs.SchedAll, job.PreemptBound, hs.PreemptFuncs, hs.Unwind, hs.MaxSteps, cx)
	switch {
	case cexs[cx.Assertion] != nil:
		rf.EngineRe = "fails (same assertion)"
		rf.Confirmed = true
	case len(cexs) > 0:
		var ids []string
		for id := range cexs {
			ids = append(ids, id)
		}
		rf.EngineRe = "fails (different assertion: " + strings.Join(ids, ",") + ")"
		rf.Confirmed = true
	default:
		rf.EngineRe = "passes"
		rf.Why = "concrete re-execution in the engine passes " + strings.Join(errs, "; ")
	}
	dir := filepath.Join(verifDir, "replays", prop)
	os.MkdirAll(dir, 0o755)
	name := sanitize(job.Name) + "-" + sanitize(cx.Assertion) + ".json"
	rf.Path = filepath.Join(dir, name)
	if rf.Confirmed && !noNative {
		nat := nativeReplay(rf)
		rf.Native = nat
		job.NativeRuns++
		if st, _ := nat["status"].(string); st == "passes" {
			// natively reproducible scenario that passes natively: the encoding or a stub is wrong
			if nr, _ := nat["natively_reproducible"].(bool); nr {
				rf.Confirmed = false
				rf.Why = "native replay passes"
			}
		}
	}
	if rf.Native != nil {
		delete(rf.Native, "log_full")
	}
	b, _ := json.MarshalIndent(rf, "", " ")
	os.WriteFile(rf.Path, b, 0o644)
	return rf
}

func cmdReplay(args []string) int {
	if len(args) < 1 {
		fmt.Fprintln(os.Stderr, "usage: gosym replay <file>")
		return 2
	}
	b, err := os.ReadFile(args[0])
	if err != nil {
		fmt.Fprintln(os.Stderr, err)
		return 2
	}
	var rf ReplayFile
	if err := json.Unmarshal(b, &rf); err != nil {
		fmt.Fprintln(os.Stderr, err)
		return 2
	}
	P, err := loadProgram(false)
	if err != nil {
		fmt.Fprintln(os.Stderr, "cannot load:", err)
		return 2
	}
	cexs, errs := engineConcrete(P, rf.Fn, rf.Params, rf.MapRot, rf.SchedAll, rf.PreemptBound, rf.PreemptFuncs, rf.Unwind, rf.MaxSteps, rf.Cex)
	for _, e := range errs {
		fmt.Fprintln(os.Stderr, "engine:", e)
	}
	if len(cexs) == 0 {
		fmt.Println("replay: engine concrete re-execution PASSES (no assertion fails)")
	}
	for id, cx := range cexs {
		fmt.Printf("replay: engine concrete re-execution FAILS assertion %s (%s): %s\n", id, cx.Kind, cx.Msg)
		if cx.Stack != "" {
			fmt.Print(cx.Stack)
		}
		for _, t := range cx.Trace {
			fmt.Println("   ", t)
		}
	}
	nat := nativeReplay(&rf)
	delete(nat, "log_full")
	nb, _ := json.MarshalIndent(nat, "", " ")
	fmt.Println("native:", string(nb))
	if len(cexs) > 0 {
		fmt.Printf("VIOLATION property=%s replay=%s\n", rf.Property, args[0])
		return 1
	}
	return 0
}
