package zzverif

import (
	"encoding/json"
	"fmt"
	"os"
	"path/filepath"
	"sync"
	"testing"
)

type inputRec struct {
	Name  string `json:"name"`
	Width int    `json:"width"`
	Value uint64 `json:"value"`
}

var st struct {
	Inputs  []inputRec       `json:"inputs"`
	Chooses []int            `json:"chooses"`
	Params  map[string]int64 `json:"params"`
	TmpDir  string           `json:"tmpdir"`
	in, ch  int
	failed  bool
	t       *testing.T
}

// NativeRun loads $ZZ_REPLAY and runs the harness with the recorded inputs and choices.
func NativeRun(t *testing.T, f func()) {
	b, err := os.ReadFile(os.Getenv("ZZ_REPLAY"))
	if err != nil {
		t.Skip("no ZZ_REPLAY")
	}
	if err := json.Unmarshal(b, &st); err != nil {
		t.Fatal(err)
	}
	st.t = t
	defer func() {
		if p := recover(); p != nil {
			if _, ok := p.(assumeFail); ok {
				fmt.Println("ZZVERIF-ASSUME-FAIL (replay diverged)")
				t.Fatal("assume failed")
			}
			if _, ok := p.(unsupportedNative); ok {
				fmt.Println("ZZVERIF-UNSUPPORTED", p)
				t.Skip("unsupported natively")
			}
			panic(p)
		}
		if st.failed {
			t.Fail()
		}
	}()
	f()
}

type assumeFail struct{}
type unsupportedNative string

func next(w int) uint64 {
	if st.in >= len(st.Inputs) {
		st.in++
		return 0
	}
	v := st.Inputs[st.in].Value
	st.in++
	return v
}

func U8(name string) uint8   { return uint8(next(8)) }
func U16(name string) uint16 { return uint16(next(16)) }
func U32(name string) uint32 { return uint32(next(32)) }
func U64(name string) uint64 { return next(64) }
func Bool(name string) bool  { return next(8)&1 != 0 }
func Bytes(name string, n int) []byte {
	b := make([]byte, n)
	for i := range b {
		b[i] = byte(next(8))
	}
	return b
}

func Choose(n int) int {
	if st.ch >= len(st.Chooses) {
		st.ch++
		return 0
	}
	v := st.Chooses[st.ch]
	st.ch++
	if v >= n {
		panic(assumeFail{})
	}
	return v
}

func Assume(c bool) {
	if !c {
		panic(assumeFail{})
	}
}

func Assert(c bool, id string) {
	if !c {
		fmt.Printf("ZZVERIF-ASSERT-FAIL id=%s\n", id)
		st.failed = true
	}
}
func Assertf(c bool, id string, msg string) {
	if !c {
		fmt.Printf("ZZVERIF-ASSERT-FAIL id=%s %s\n", id, msg)
		st.failed = true
	}
}
func AssertUnless(c bool, trigger bool, id string, key string) { Assert(c, id) }
func Reach(label string)                                       {}
func Param(name string, def int) int {
	if v, ok := st.Params[name]; ok {
		return int(v)
	}
	return def
}
func Note(msg string)        { fmt.Println("note:", msg) }
func Symbolic() bool         { return false }
func MapOrderAny(on bool)    {}
func And(a, b bool) bool     { return a && b }
func Or(a, b bool) bool      { return a || b }
func Implies(a, b bool) bool { return !a || b }
func Ite64(c bool, a, b uint64) uint64 {
	if c {
		return a
	}
	return b
}
func SameExpr(a, b uint64) bool        { return a == b }
func Concretize64(v uint64) uint64     { return v }
func StubReturn64(fn string, v uint64) { panic(unsupportedNative("StubReturn64")) }
func StubClear()                       {}
func MutexHeld(m *sync.Mutex) bool {
	if m.TryLock() {
		m.Unlock()
		return false
	}
	return true
}
func RWMutexState(m *sync.RWMutex) (bool, int) {
	if m.TryLock() {
		m.Unlock()
		return false, 0
	}
	if m.TryRLock() {
		m.RUnlock()
		return false, 1
	}
	return true, 0
}

func TempPath(name string) string { return filepath.Join(st.TmpDir, name) }
func FaultArm(kind string, k int) { panic(unsupportedNative("FaultArm")) }
func FaultAnyOnce(kinds string)   {}
func FaultDisarm()                {}
func FaultFired() bool            { return false }
func IOCount(kind string) int     { return 0 }
func LastFault() (string, int)    { return "", -1 }
func FileSize(path string) int64 {
	fi, err := os.Stat(path)
	if err != nil {
		return -1
	}
	return fi.Size()
}
func FileBytes(path string) []byte { b, _ := os.ReadFile(path); return b }
func FileView(path string) []byte  { b, _ := os.ReadFile(path); return b }
func WriteFileBytes(path string, b []byte) {
	if err := os.WriteFile(path, b, 0o644); err != nil {
		panic(err)
	}
}
func PokeFile(path string, off int64, v byte) {
	f, err := os.OpenFile(path, os.O_RDWR, 0)
	if err != nil {
		panic(err)
	}
	defer f.Close()
	if _, err := f.WriteAt([]byte{v}, off); err != nil {
		panic(err)
	}
}
func PeekFile(path string, off int64) byte {
	b, _ := os.ReadFile(path)
	if off < int64(len(b)) {
		return b[off]
	}
	return 0
}
func CrashArm()                                            {}
func CrashDisarm()                                         {}
func RunUntilCrash(f func()) bool                          { f(); return false }
func EventCount() int                                      { return 0 }
func Event(i int) (string, string, int64, int64, bool)     { return "", "", 0, 0, false }
func Protect(path string, off int64, n int64, what string) {}
func ProtectClear()                                        {}
func LockHolders(path string) (int, int)                   { return 0, 0 }
func ClockAdvance(d int64)                                 {}
func ClockNow() int64                                      { return 0 }
func Setenv(k, v string)                                   { os.Setenv(k, v) }
func IsReadOnlyMem(b []byte) bool                          { return false }
func TryStore(b []byte, i int, v byte) bool                { panic(unsupportedNative("TryStore")) }

func SymbolicTruncate(on bool)    { panic(unsupportedNative("SymbolicTruncate")) }
func LastTruncate() (int64, bool) { return 0, false }

func KnownFaultRegion(trigger bool, key string) {}

func Digest(name string, v uint64) { fmt.Printf("ZZVERIF-DIGEST %s=%d\n", name, v) }

func PokeDelete(path string) { os.Remove(path) }
