#!/bin/bash
# seedrun.sh <seed-dir> <label> <check-id>... : applies one seeded change to /repo, runs the given quick checks
# (engine confirmation only, no native replay), restores /repo. One line per check on stdout.
SD=$1; LABEL=$2; shift 2
cd /verif
git -C /repo status --porcelain | grep -q . && { echo "/repo not clean"; exit 1; }
git -C /repo apply "$SD/patch.diff" || { echo "$LABEL patch-does-not-apply"; exit 1; }
trap 'git -C /repo checkout -- . ; git -C /repo clean -fdq' EXIT
for chk in "$@"; do
  t0=$(date +%s)
  GOSYM_VERIF=/verif timeout -k 5 ${SEED_TIMEOUT:-2400} ./bin/gosym run -property $chk -tier ${SEED_TIER:-quick} -out /tmp/matrix_ev_$LABEL.json -no-native ${SEED_EXTRA:-} > /tmp/matrix_${LABEL}_$chk.log 2>&1; rc=$?
  ids=$(grep -o "^  assertion [^ ]*" /tmp/matrix_${LABEL}_$chk.log | sed 's/  assertion //' | sort -u | head -5 | tr '\n' ',')
  inc=$(grep -c INCONCLUSIVE /tmp/matrix_${LABEL}_$chk.log)
  echo "$LABEL check=$chk rc=$rc $(( $(date +%s)-t0 ))s asserts=$ids inconclusive=$inc"
done
