package bbolt

// S-RW (C02c, C03c): truly concurrent readers, a writer that forces a remap, and Close, explored
// over goroutine schedules (every choice at blocking points + a bounded number of preemptions at
// synchronisation operations inside the DB/Tx code).

import (
	zz "go.etcd.io/bbolt/internal/zzverif"
)

func HarnessConcurrent() {
	c := zzConfig()
	path := zz.TempPath("conc.db")
	db := zzMustOpen(path, c, "conc")
	zzSetup(db, 0)
	s0 := zzViewDump(db, "conc/s0")
	base := uint64(0)
	_ = db.View(func(tx *Tx) error { base = uint64(tx.ID()); return nil })
	nReaders := zz.Param("readers", 2)
	withClose := zz.Param("close", 0) == 1
	big := c.pageSize * zz.Param("bigpages", 40) // larger than the initial 32 KiB map: the commit must remap
	var s1, s2 []zzKV
	done := make(chan int, nReaders+2)
	// writer: two commits, the second one needs a remap (which must wait for open readers)
	go func() {
		tx, err := db.Begin(true)
		if err == nil {
			zz.Assert(tx.Bucket([]byte("b")).Put([]byte("w1"), []byte("one")) == nil, "conc/put1")
			s1 = zzDump(tx)
			zz.Assert(tx.Commit() == nil, "conc/commit1")
			zz.Reach("commit1")
		}
		tx, err = db.Begin(true)
		if err == nil {
			zz.Assert(tx.Bucket([]byte("b")).Put([]byte("w2"), zzVal(big, 'B')) == nil, "conc/put2")
			s2 = zzDump(tx)
			zz.Assert(tx.Commit() == nil, "conc/commit2")
			zz.Reach("commit2-with-remap")
		}
		done <- 0
	}()
	for i := 0; i < nReaders; i++ {
		go func() {
			tx, err := db.Begin(false)
			if err != nil {
				zz.Assert(withClose, "conc/reader-begin-fails-only-when-closing")
				done <- 1
				return
			}
			d1 := zzDump(tx)
			id := uint64(tx.ID())
			d2, p := zzDumpCatch(tx) // re-read later in the schedule
			zz.Assert(!p, "conc/reader-usable")
			zz.Assert(zzSameKVs(d1, d2), "conc/reader-snapshot-immutable")
			// the snapshot is one of the committed states, and the one its id names
			is0, is1, is2 := zzSameKVs(d1, s0), s1 != nil && zzSameKVs(d1, s1), s2 != nil && zzSameKVs(d1, s2)
			zz.Assert(is0 || is1 || is2, "conc/reader-sees-a-committed-state")
			// ... and exactly the one its transaction id names (commit order = id order)
			switch id {
			case base:
				zz.Assert(is0, "conc/reader-id-names-its-version")
			case base + 1:
				zz.Assert(is1, "conc/reader-id-names-its-version")
			case base + 2:
				zz.Assert(is2, "conc/reader-id-names-its-version")
			default:
				zz.Assert(false, "conc/reader-id-is-a-committed-id")
			}
			zz.Assert(tx.Rollback() == nil, "conc/reader-close")
			zz.Reach("reader-done")
			done <- 1
		}()
	}
	if withClose {
		go func() {
			zz.Assert(db.Close() == nil, "conc/Close")
			zz.Reach("closed")
			done <- 2
		}()
	}
	n := nReaders + 1
	if withClose {
		n++
	}
	for i := 0; i < n; i++ {
		<-done
	}
	zz.Reach("all-returned")
	if !withClose {
		zzLocksFree(db, "conc/locks", 0)
		zzCheckAll(db, path, c, "conc/final")
		zz.Assert(db.Close() == nil, "conc/close")
	}
	zz.Reach("done")
}
