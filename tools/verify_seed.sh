#!/bin/bash
# verify_seed.sh <seed-dir> <out-dir> [nosuite]
# Re-verifies one seeded change in a scratch worktree of /repo HEAD (outside /repo and /verif):
#   demo passes on the pristine tree, patch applies, tree builds, demo fails with the patch,
#   the existing suite (root, internal, cmd) still passes with the patch.
# Writes <out-dir>/result.txt and removes the worktree and its build output.
set -u
SD=$1; OUT=$2; NOSUITE=${3:-}
export PATH=/opt/veriftools/go1.26.8/bin:$PATH GOFLAGS=-mod=mod GOPROXY=off GOSUMDB=off GOTOOLCHAIN=local
mkdir -p "$OUT"; R="$OUT/result.txt"; : > "$R"
WT=$(mktemp -d /tmp/seedverify-wt-XXXXXX)
git -C /repo worktree add --detach "$WT" HEAD >/dev/null 2>&1 || { echo "worktree failed" >> "$R"; exit 1; }
cleanup() { git -C /repo worktree remove --force "$WT" >/dev/null 2>&1; rm -rf "$WT"; }
trap cleanup EXIT
pkgdir=$(python3 -c "import json,sys;print(json.load(open('$SD/meta.json')).get('demo_pkg_dir','.') or '.')")
democmd=$(python3 -c "import json,sys;print(json.load(open('$SD/meta.json')).get('demo_cmd',''))")
echo "demo_pkg_dir=$pkgdir" >> "$R"; echo "demo_cmd=$democmd" >> "$R"
place_demo() {
  if [ -f "$SD/zz_demo_test.go" ]; then mkdir -p "$WT/$pkgdir"; cp "$SD/zz_demo_test.go" "$WT/$pkgdir/zz_demo_test.go"; fi
  if [ -d "$SD/demo" ]; then mkdir -p "$WT/zz_demo"; cp -r "$SD/demo/." "$WT/zz_demo/"; fi
  for f in "$SD"/zz_demo_*_test.go; do [ -f "$f" ] && cp "$f" "$WT/$pkgdir/"; done
}
remove_demo() { rm -f "$WT/$pkgdir"/zz_demo*_test.go; rm -rf "$WT/zz_demo"; }
cd "$WT"
place_demo
timeout 600 bash -c "$democmd" > "$OUT/demo_pristine.log" 2>&1; echo "demo_pristine rc=$?" >> "$R"
remove_demo
if git apply --check "$SD/patch.diff" 2>/dev/null; then git apply "$SD/patch.diff"; echo "apply rc=0" >> "$R"; else echo "apply rc=1" >> "$R"; exit 0; fi
if git status --porcelain | grep -q '_test.go'; then echo "touches_tests rc=1" >> "$R"; fi
go build ./... > "$OUT/build.log" 2>&1; echo "build rc=$?" >> "$R"
go test -vet=off -count=1 -run '^$' . ./internal/... ./cmd/... > "$OUT/testbuild.log" 2>&1; echo "testbuild rc=$?" >> "$R"
place_demo
timeout 600 bash -c "$democmd" > "$OUT/demo_patched.log" 2>&1; echo "demo_patched rc=$?" >> "$R"
remove_demo
if [ -z "$NOSUITE" ]; then
  timeout 5400 go test -vet=off -count=1 -timeout 80m . ./internal/... ./cmd/... > "$OUT/suite.log" 2>&1; echo "suite rc=$?" >> "$R"
  grep -E '^(--- FAIL|FAIL|ok|panic:)' "$OUT/suite.log" | head -40 >> "$R"
fi
exit 0
