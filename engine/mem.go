package main

import (
	"fmt"
	"go/types"
)

// Obj is a byte-addressed memory object (amd64 layout).
type Obj struct {
	ID    int
	Size  int64
	B     []byte          // concrete bytes (lazily grown; missing = 0)
	S     map[int64]*Node // symbolic byte overrides (8-bit nodes)
	R     map[int64]Value // boxed reference cells by base offset
	Dead  bool            // unmapped view / freed
	RO    bool            // PROT_READ mapping
	Alias *Obj            // mmap view: bytes live in the file content object
	File  *VFile
	Tag   string
	Ext   interface{}
}

type fatalFault struct{ msg string }      // SIGSEGV/SIGBUS-like: unrecoverable in Go
type abortPath struct{ reason string }    // path dropped (assume failed, budget, ...)
type engineError struct{ msg string }     // unsupported construct / internal error -> inconclusive
type targetPanic struct{ v Value }        // Go-level panic value (an Iface)
type goexit struct{}                      // goroutine killed at end of run

func unsupported(format string, args ...interface{}) {
	panic(engineError{fmt.Sprintf(format, args...)})
}

func (r *Run) newObj(size int64, tag string) *Obj {
	r.nextObj++
	o := &Obj{ID: r.nextObj, Size: size, Tag: tag}
	if size <= 1<<16 {
		o.B = make([]byte, size)
	}
	return o
}

func (o *Obj) ensure(n int64) {
	if int64(len(o.B)) >= n {
		return
	}
	c := int64(cap(o.B))
	if c < n {
		nc := c * 2
		if nc < n {
			nc = n
		}
		if nc < 4096 {
			nc = 4096
		}
		nb := make([]byte, n, nc)
		copy(nb, o.B)
		o.B = nb
	} else {
		o.B = o.B[:n]
	}
}

// access validates an access and returns the object that holds the bytes.
func (r *Run) access(o *Obj, off, n int64, write bool) *Obj {
	if o == nil {
		r.goPanicStr("runtime error: invalid memory address or nil pointer dereference")
	}
	if o.Dead {
		panic(fatalFault{fmt.Sprintf("SIGSEGV: access to unmapped/dead object %s (off %d)", o.Tag, off)})
	}
	if off < 0 || off+n > o.Size {
		panic(fatalFault{fmt.Sprintf("out-of-bounds access: object %s size %d, off %d len %d", o.Tag, o.Size, off, n)})
	}
	if write && o.RO {
		panic(fatalFault{fmt.Sprintf("SIGSEGV: store to PROT_READ mapping %s at off %d", o.Tag, off)})
	}
	if o.Alias != nil {
		lim := (o.File.size + 4095) &^ 4095
		if off+n > lim {
			panic(fatalFault{fmt.Sprintf("SIGBUS: access beyond end of mapped file %s: off %d len %d, file size %d", o.Tag, off, n, o.File.size)})
		}
		r.vosTouch(o.File, off, n)
		return o.Alias
	}
	return o
}

func (o *Obj) byteAt(off int64) byte {
	if off < int64(len(o.B)) {
		return o.B[off]
	}
	return 0
}

func refSize(v Value) int64 {
	switch v.(type) {
	case Slice:
		return 24
	case Str, Iface:
		return 16
	}
	return 8
}

// clearRefs removes reference cells overlapping [off, off+n).
func (o *Obj) clearRefs(off, n int64) {
	if len(o.R) == 0 {
		return
	}
	if n > 64 && int64(len(o.R)) < n/8 {
		for b, v := range o.R {
			if b < off+n && b+refSize(v) > off {
				delete(o.R, b)
			}
		}
		return
	}
	for b := (off &^ 7) - 16; b < off+n; b += 8 {
		if v, ok := o.R[b]; ok && b+refSize(v) > off {
			delete(o.R, b)
		}
	}
}

func (o *Obj) clearSyms(off, n int64) {
	if len(o.S) == 0 {
		return
	}
	if int64(len(o.S)) < n {
		for b := range o.S {
			if b >= off && b < off+n {
				delete(o.S, b)
			}
		}
		return
	}
	for i := int64(0); i < n; i++ {
		delete(o.S, off+i)
	}
}

func (r *Run) loadInt(o0 *Obj, off int64, w uint8) Int {
	n := int64(w) / 8
	if n == 0 {
		n = 1
	}
	o := r.access(o0, off, n, false)
	if len(o.R) != 0 {
		if v, ok := o.R[off]; ok {
			if iv, ok := v.(Int); ok && iv.W == w {
				return iv
			}
		}
	}
	sym := false
	if len(o.S) != 0 {
		for i := int64(0); i < n; i++ {
			if _, ok := o.S[off+i]; ok {
				sym = true
				break
			}
		}
	}
	if !sym {
		var c uint64
		for i := n - 1; i >= 0; i-- {
			c = c<<8 | uint64(o.byteAt(off+i))
		}
		if w == 1 {
			if c != 0 {
				c = 1
			}
		}
		return Int{W: w, C: c}
	}
	p := r.pool
	var acc *Node
	for i := int64(0); i < n; i++ {
		bn, ok := o.S[off+i]
		if !ok {
			bn = p.Const(8, uint64(o.byteAt(off+i)))
		}
		if acc == nil {
			acc = bn
		} else {
			acc = p.Concat(bn, acc)
		}
	}
	if w == 1 {
		b := p.BNot(p.Cmp(OpEq, acc, p.Const(8, 0)))
		return r.fromNode(1, b)
	}
	return r.fromNode(w, acc)
}

// fromNode wraps a node as Int, folding constants.
func (r *Run) fromNode(w uint8, n *Node) Int {
	if n.op == OpConst || n.op == OpBConst {
		return Int{W: w, C: n.k}
	}
	return Int{W: w, N: n}
}

// node returns the expression for an Int (bit-vector of width W, or Bool for W=1).
func (r *Run) node(v Int) *Node {
	if v.N != nil {
		return v.N
	}
	if v.W == 1 {
		return r.pool.Bool(v.C != 0)
	}
	return r.pool.Const(v.W, v.C)
}

func (r *Run) storeInt(o0 *Obj, off int64, v Int) {
	n := int64(v.W) / 8
	if n == 0 {
		n = 1
	}
	o := r.access(o0, off, n, true)
	o.clearRefs(off, n)
	if v.P != nil {
		// address held in a uintptr: keep boxed
		o.clearSyms(off, n)
		if o.R == nil {
			o.R = make(map[int64]Value)
		}
		o.R[off] = v
		return
	}
	if v.N == nil {
		o.clearSyms(off, n)
		o.ensure(off + n)
		c := v.C
		for i := int64(0); i < n; i++ {
			o.B[off+i] = byte(c)
			c >>= 8
		}
		return
	}
	p := r.pool
	nd := v.N
	if v.W == 1 {
		nd = p.Ite(nd, p.Const(8, 1), p.Const(8, 0))
	}
	for i := int64(0); i < n; i++ {
		bn := p.Extract(nd, uint8(8*i+7), uint8(8*i))
		if bn.isConst() {
			if len(o.S) != 0 {
				delete(o.S, off+i)
			}
			o.ensure(off + i + 1)
			o.B[off+i] = byte(bn.k)
		} else {
			if o.S == nil {
				o.S = make(map[int64]*Node)
			}
			o.S[off+i] = bn
		}
	}
}

func (r *Run) loadRef(o0 *Obj, off int64, n int64, t types.Type) Value {
	o := r.access(o0, off, n, false)
	if len(o.R) != 0 {
		if v, ok := o.R[off]; ok {
			return v
		}
	}
	return zero(t)
}

func (r *Run) storeRef(o0 *Obj, off int64, n int64, v Value, isZero bool) {
	o := r.access(o0, off, n, true)
	o.clearRefs(off, n)
	o.clearSyms(off, n)
	if int64(len(o.B)) > off {
		end := off + n
		if end > int64(len(o.B)) {
			end = int64(len(o.B))
		}
		for i := off; i < end; i++ {
			o.B[i] = 0
		}
	}
	if isZero {
		return
	}
	if o.R == nil {
		o.R = make(map[int64]Value)
	}
	o.R[off] = v
}

func isZeroRef(v Value) bool {
	switch v := v.(type) {
	case Ptr:
		return v.O == nil && v.Off == 0
	case Slice:
		return v.O == nil && v.Len == 0 && v.Cap == 0
	case Str:
		return len(v.S) == 0
	case Iface:
		return v.T == nil
	case *MapObj:
		return v == nil
	case *ChanObj:
		return v == nil
	case *Closure:
		return v == nil
	case nil:
		return true
	}
	return false
}

// load reads a value of type t at (o, off).
func (r *Run) load(o *Obj, off int64, t types.Type) Value {
	switch u := t.Underlying().(type) {
	case *types.Basic:
		switch {
		case u.Kind() == types.String:
			return r.loadRef(o, off, 16, t)
		case u.Kind() == types.UnsafePointer:
			v := r.loadRef(o, off, 8, t)
			if iv, ok := v.(Int); ok { // uintptr cell read as pointer
				return r.intToPtr(iv)
			}
			return v
		case u.Info()&types.IsFloat != 0:
			v := r.loadRef(o, off, sizeof(t), t)
			return v
		case u.Info()&types.IsComplex != 0:
			return r.loadRef(o, off, sizeof(t), t)
		default:
			return r.loadInt(o, off, intWidth(u))
		}
	case *types.Pointer:
		v := r.loadRef(o, off, 8, t)
		if iv, ok := v.(Int); ok {
			return r.intToPtr(iv)
		}
		return v
	case *types.Map, *types.Chan:
		return r.loadRef(o, off, 8, t)
	case *types.Signature:
		return r.loadRef(o, off, 8, t)
	case *types.Slice:
		return r.loadRef(o, off, 24, t)
	case *types.Interface:
		return r.loadRef(o, off, 16, t)
	case *types.Struct:
		offs := fieldOffsets(t)
		s := make(Struct, u.NumFields())
		for i := range s {
			s[i] = r.load(o, off+offs[i], u.Field(i).Type())
		}
		return s
	case *types.Array:
		es := sizeof(u.Elem())
		n := u.Len()
		if n > 1<<16 {
			unsupported("load of huge array value %v", t)
		}
		a := make(Array, n)
		for i := range a {
			a[i] = r.load(o, off+int64(i)*es, u.Elem())
		}
		return a
	}
	unsupported("load: type %v", t)
	return nil
}

func (r *Run) store(o *Obj, off int64, t types.Type, v Value) {
	switch u := t.Underlying().(type) {
	case *types.Basic:
		switch {
		case u.Kind() == types.String:
			r.storeRef(o, off, 16, v, isZeroRef(v))
		case u.Kind() == types.UnsafePointer:
			r.storeRef(o, off, 8, v, isZeroRef(v))
		case u.Info()&types.IsFloat != 0, u.Info()&types.IsComplex != 0:
			z := false
			if f, ok := v.(Float); ok && f.F == 0 {
				z = true
			}
			r.storeRef(o, off, sizeof(t), v, z)
		default:
			iv := v.(Int)
			if w := intWidth(u); iv.W != w {
				panic(fmt.Sprintf("store width mismatch: type %v, value width %d", t, iv.W))
			}
			r.storeInt(o, off, iv)
		}
	case *types.Pointer, *types.Map, *types.Chan, *types.Signature:
		r.storeRef(o, off, 8, v, isZeroRef(v) || isNilFunc2(v))
	case *types.Slice:
		r.storeRef(o, off, 24, v, isZeroRef(v))
	case *types.Interface:
		r.storeRef(o, off, 16, v, isZeroRef(v))
	case *types.Struct:
		offs := fieldOffsets(t)
		s := v.(Struct)
		for i := range s {
			r.store(o, off+offs[i], u.Field(i).Type(), s[i])
		}
	case *types.Array:
		es := sizeof(u.Elem())
		a := v.(Array)
		for i := range a {
			r.store(o, off+int64(i)*es, u.Elem(), a[i])
		}
	default:
		unsupported("store: type %v", t)
	}
}

func isNilFunc2(v Value) bool {
	switch v.(type) {
	case *Closure:
		return v.(*Closure) == nil
	}
	return false
}

// memmove copies n bytes including symbolic bytes and reference cells.
func (r *Run) memmove(dst0 *Obj, doff int64, src0 *Obj, soff int64, n int64) {
	if n == 0 {
		return
	}
	src := r.access(src0, soff, n, false)
	dst := r.access(dst0, doff, n, true)
	// gather
	var syms map[int64]*Node
	var refs map[int64]Value
	if len(src.S) != 0 {
		if int64(len(src.S)) < n {
			for b, nd := range src.S {
				if b >= soff && b < soff+n {
					if syms == nil {
						syms = make(map[int64]*Node)
					}
					syms[b-soff] = nd
				}
			}
		} else {
			for i := int64(0); i < n; i++ {
				if nd, ok := src.S[soff+i]; ok {
					if syms == nil {
						syms = make(map[int64]*Node)
					}
					syms[i] = nd
				}
			}
		}
	}
	if len(src.R) != 0 {
		for b, v := range src.R {
			if b >= soff && b+refSize(v) <= soff+n {
				if refs == nil {
					refs = make(map[int64]Value)
				}
				refs[b-soff] = v
			}
		}
	}
	dst.clearRefs(doff, n)
	dst.clearSyms(doff, n)
	dst.ensure(doff + n)
	avail := int64(len(src.B)) - soff
	if avail < 0 {
		avail = 0
	}
	if avail > n {
		avail = n
	}
	copy(dst.B[doff:doff+avail], src.B[soff:soff+avail]) // Go's copy handles overlap
	for i := avail; i < n; i++ {
		dst.B[doff+i] = 0
	}
	for b, nd := range syms {
		if dst.S == nil {
			dst.S = make(map[int64]*Node)
		}
		dst.S[doff+b] = nd
	}
	for b, v := range refs {
		if dst.R == nil {
			dst.R = make(map[int64]Value)
		}
		dst.R[doff+b] = v
	}
}

// byteNode returns the 8-bit node (or constant) of a byte in memory.
func (r *Run) loadByteNode(o *Obj, off int64) *Node {
	if len(o.S) != 0 {
		if nd, ok := o.S[off]; ok {
			return nd
		}
	}
	return r.pool.Const(8, uint64(o.byteAt(off)))
}

// sliceBytes returns the bytes of a byte slice as nodes (nil entries = concrete, in conc).
func (r *Run) sliceBytes(s Slice) (conc []byte, syms []*Node) {
	if s.Len == 0 {
		return nil, nil
	}
	o := r.access(s.O, s.Off, s.Len, false)
	conc = make([]byte, s.Len)
	for i := int64(0); i < s.Len; i++ {
		conc[i] = o.byteAt(s.Off + i)
	}
	if len(o.S) != 0 {
		for i := int64(0); i < s.Len; i++ {
			if nd, ok := o.S[s.Off+i]; ok {
				if syms == nil {
					syms = make([]*Node, s.Len)
				}
				syms[i] = nd
			}
		}
	}
	return
}

func (r *Run) intToPtr(iv Int) Value {
	if iv.P == nil {
		if iv.N == nil && iv.C == 0 {
			return Ptr{}
		}
		unsupported("conversion of plain integer %v to pointer", iv)
	}
	off := r.concretize(Int{W: 64, C: iv.C, N: iv.N}, "ptr-offset")
	return Ptr{O: iv.P, Off: int64(off)}
}
