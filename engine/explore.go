package main

import (
	"fmt"
	"go/types"
	"os"
	"sort"
	"strings"
	"sync"
	"time"

	"golang.org/x/tools/go/ssa"
)

const (
	dBranch = iota
	dConc
	dChoose
)

type Dec struct {
	Kind  uint8
	Val   uint64
	Label string
}

type WorkItem struct {
	decs  []Dec
	model []uint64
}

type InputRec struct {
	Name  string `json:"name"`
	Width int    `json:"width"`
	Value uint64 `json:"value"`
}

type Counterexample struct {
	Assertion string     `json:"assertion"`
	Msg       string     `json:"msg"`
	Inputs    []InputRec `json:"inputs"`
	Chooses   []ChooseRec `json:"chooses"`
	Decs      []Dec      `json:"-"`
	Model     []uint64   `json:"-"`
	Stack     string     `json:"stack,omitempty"`
	Trace     []string   `json:"trace,omitempty"`
	Kind      string     `json:"kind"` // assert | panic | fault | deadlock | unwind
}

type ChooseRec struct {
	Label string `json:"label"`
	N     int    `json:"n"`
	Val   int    `json:"val"`
}

// Job: one harness configuration being explored.
type Job struct {
	P        *Program
	Fn       *ssa.Function
	Name     string
	Params   map[string]int64
	Unwind   int32
	MaxSteps int64
	MaxPaths int64
	Deadline time.Time
	MapRot   bool
	SchedAll bool
	PreemptBound int
	PreemptFuncs []string
	Concrete *Counterexample // replay mode

	mu           sync.Mutex
	stack        []*WorkItem
	active       int
	cond         *sync.Cond
	stop         bool
	Paths        int64
	Dropped      int64
	Decisions    int64
	States       int64
	Inconclusive []string
	EngineErrors []string
	Cexs         map[string]*Counterexample // first per assertion id
	CexCount     map[string]int
	Reach        map[string]int64
	FnCount      map[string]int64
	AssertChecks map[string]int64
	Obligations  int64
	Discharged   int64
	Samples      []map[string]interface{}
	Queries      [3]int64
	SolverTime   time.Duration
	Steps        int64
	LazyGlobals  map[string]bool
	BudgetHit    string
	Trusted      map[string]bool
	Known        map[string]bool
	KnownHits    map[string]int64
	NativeRuns   int64
	Digests      []string
	SolverRetries, SolverRescued int64 // queries re-decided by a fresh solver process after `unknown`
	Events       []Event // vos event trace of the (single) concrete run: environment differential
}

type Worker struct {
	id      int
	sol     *Solver
	consts  map[*ssa.Const]Value
	methods map[methKey]*ssa.Function
	impls   map[implKey]bool
}

// Run: one path execution.
type Run struct {
	P    *Program
	job  *Job
	w    *Worker
	pool *Pool
	sol  *Solver

	prefix []Dec
	pos    int
	decs   []Dec
	model  []uint64

	declared int
	defined  []bool
	pc       []*Node
	pend     []pendAssert
	lits     map[int32]bool
	inputs   []InputRec
	concrete []uint64 // replay: input values by index (concrete mode)
	chooses  []ChooseRec
	replayCh []ChooseRec
	chPos    int

	globals     map[*ssa.Global]*Obj
	lazyGlobals map[string]bool
	nextObj     int
	steps       int64
	maxSteps    int64
	unwind      int32
	mapRotate   bool
	fnCount     map[string]int64
	reach       map[string]int64
	asserts     map[string]int64
	obligations int64
	discharged  int64
	inconcl     []string
	trace       []string
	cexs        []*Counterexample
	dropped     bool
	dropReason  string
	knownHits   map[string]int64

	// scheduler
	cur     *G
	gs      []*G
	nextGID int
	locks   map[lockKey]*lockState
	onces   map[lockKey]*onceState
	pools   map[lockKey][]Value
	killed  bool
	knownFaultKey string
	digests       []string
	preemptions int
	exclude     *G
	stubs    map[string]Value
	gPanic   interface{}
	lastPanicStack string
	deadlock bool

	vos *VOS
}

func (j *Job) push(it *WorkItem) {
	j.mu.Lock()
	j.stack = append(j.stack, it)
	j.mu.Unlock()
	j.cond.Signal()
}

func (r *Run) enqueue(d Dec, model []uint64) {
	nd := make([]Dec, len(r.decs)+1)
	copy(nd, r.decs)
	nd[len(r.decs)] = d
	r.job.push(&WorkItem{decs: nd, model: model})
}

// ---- solver emission ----

func (r *Run) define(n *Node) {
	if n.op == OpConst || n.op == OpBConst {
		return
	}
	if int(n.id) < len(r.defined) && r.defined[n.id] {
		return
	}
	// iterative post-order
	type st struct {
		n *Node
		k int
	}
	stack := []st{{n, 0}}
	for len(stack) > 0 {
		top := &stack[len(stack)-1]
		x := top.n
		if x.op == OpConst || x.op == OpBConst || (int(x.id) < len(r.defined) && r.defined[x.id]) {
			stack = stack[:len(stack)-1]
			continue
		}
		var child *Node
		switch top.k {
		case 0:
			child = x.a
		case 1:
			child = x.b
		case 2:
			child = x.c
		}
		if top.k < 3 {
			top.k++
			if child != nil {
				stack = append(stack, st{child, 0})
			}
			continue
		}
		for int(x.id) >= len(r.defined) {
			r.defined = append(r.defined, make([]bool, len(r.defined)+64)...)
		}
		r.defined[x.id] = true
		if x.op == OpVar {
			r.sol.Send(fmt.Sprintf("(declare-const v%d %s)", x.k, sortStr(x.w)))
		} else {
			r.sol.Send(fmt.Sprintf("(define-fun n%d () %s %s)", x.id, sortStr(x.w), x.smtBody()))
		}
		stack = stack[:len(stack)-1]
	}
}

// known returns +1 if n is already asserted on this path, -1 if its negation is, 0 otherwise.
func (r *Run) known(n *Node) int {
	if v, ok := r.lits[n.id]; ok {
		if v {
			return 1
		}
		return -1
	}
	return 0
}

func (r *Run) noteLit(n *Node) {
	r.lits[n.id] = true
	switch n.op {
	case OpBNot:
		r.lits[n.a.id] = false
		if n.a.op == OpBOr {
			r.noteLit(r.pool.BNot(n.a.a))
			r.noteLit(r.pool.BNot(n.a.b))
		}
	case OpBAnd:
		r.noteLit(n.a)
		r.noteLit(n.b)
	}
}

func (r *Run) assertNode(n *Node) {
	r.pc = append(r.pc, n)
	r.noteLit(n)
	if r.sol == nil {
		return
	}
	r.define(n)
	r.sol.Send("(assert " + n.ref() + ")")
}

func (r *Run) widths() []uint8 {
	ws := make([]uint8, len(r.pool.vars))
	for i, v := range r.pool.vars {
		ws[i] = v.w
	}
	return ws
}

// query checks PC ∧ extra; returns result and a model.
func (r *Run) query(extra *Node) (SatResult, []uint64) {
	r.define(extra)
	// all variables must be declared for get-value
	for _, v := range r.pool.vars {
		r.define(v)
	}
	r.sol.Push()
	r.sol.Send("(assert " + extra.ref() + ")")
	res, m := r.sol.Check(len(r.pool.vars), nil)
	r.sol.Pop()
	if res == Unknown {
		r.inconcl = append(r.inconcl, "solver returned unknown")
	}
	return res, m
}

func (r *Run) evalBool(n *Node) bool { return r.pool.Eval(n, r.model) != 0 }

func (r *Run) where(fr *frame) string {
	if fr != nil {
		return posStr(r.P, fr.pos)
	}
	return ""
}

// branch decides a symbolic condition.
func (r *Run) branch(c *Node, fr *frame) bool {
	if c.op == OpBConst {
		return c.k != 0
	}
	p := r.pool
	if k := r.known(c); k != 0 {
		return k > 0
	}
	if r.pos < len(r.prefix) {
		d := r.prefix[r.pos]
		if d.Kind != dBranch {
			panic(engineError{fmt.Sprintf("replay divergence: expected branch, prefix has kind %d (%s) at %d", d.Kind, d.Label, r.pos)})
		}
		r.pos++
		r.decs = append(r.decs, d)
		if d.Val != 0 {
			r.assertNode(c)
		} else {
			r.assertNode(p.BNot(c))
		}
		return d.Val != 0
	}
	b := r.evalBool(c)
	lit, neg := c, p.BNot(c)
	if !b {
		lit, neg = neg, lit
	}
	res, m := r.query(neg)
	if res == Sat {
		v := uint64(1)
		if b {
			v = 0
		}
		r.enqueue(Dec{Kind: dBranch, Val: v}, m)
	}
	var v uint64
	if b {
		v = 1
	}
	r.decs = append(r.decs, Dec{Kind: dBranch, Val: v})
	r.pos++
	r.assertNode(lit)
	return b
}

const concretizeCap = 4096

// concretize picks a concrete value for a symbolic integer, forking over all feasible values.
func (r *Run) concretize(v Int, what string) uint64 {
	if v.N == nil {
		return v.C
	}
	p := r.pool
	nd := v.N
	w := v.W
	if w == 1 {
		if r.branch(nd, nil) {
			return 1
		}
		return 0
	}
	if r.pos < len(r.prefix) {
		d := r.prefix[r.pos]
		if d.Kind != dConc {
			panic(engineError{fmt.Sprintf("replay divergence: expected concretize(%s), prefix has kind %d at %d", what, d.Kind, r.pos)})
		}
		r.pos++
		r.decs = append(r.decs, d)
		r.assertNode(p.Cmp(OpEq, nd, p.Const(w, d.Val)))
		return d.Val
	}
	v0 := p.Eval(nd, r.model)
	// enumerate alternatives
	r.define(nd)
	for _, vv := range p.vars {
		r.define(vv)
	}
	r.sol.Push()
	r.sol.Send("(assert (not (= " + nd.ref() + " " + constStr(w, v0) + ")))")
	n := 0
	for {
		res, m := r.sol.Check(len(p.vars), nil)
		if res == Unknown {
			r.inconcl = append(r.inconcl, "solver unknown in concretize("+what+")")
			break
		}
		if res == Unsat {
			break
		}
		vi := p.Eval(nd, m)
		r.enqueue(Dec{Kind: dConc, Val: vi, Label: what}, m)
		r.sol.Send("(assert (not (= " + nd.ref() + " " + constStr(w, vi) + ")))")
		n++
		if n > concretizeCap {
			r.sol.Pop()
			panic(engineError{fmt.Sprintf("concretize(%s): more than %d feasible values", what, concretizeCap)})
		}
	}
	r.sol.Pop()
	r.decs = append(r.decs, Dec{Kind: dConc, Val: v0, Label: what})
	r.pos++
	r.assertNode(p.Cmp(OpEq, nd, p.Const(w, v0)))
	return v0
}

// choose: n-way nondeterministic choice (not solver-symbolic).
func (r *Run) choose(n int, label string) int {
	if n <= 1 {
		return 0
	}
	if r.job.Concrete != nil {
		// concrete replay: take from recorded chooses
		if r.chPos < len(r.replayCh) {
			c := r.replayCh[r.chPos]
			r.chPos++
			r.chooses = append(r.chooses, ChooseRec{label, n, c.Val})
			if c.Val >= n {
				panic(engineError{"replay divergence in choose"})
			}
			return c.Val
		}
		r.chooses = append(r.chooses, ChooseRec{label, n, 0})
		return 0
	}
	if r.pos < len(r.prefix) {
		d := r.prefix[r.pos]
		if d.Kind != dChoose {
			panic(engineError{fmt.Sprintf("replay divergence: expected choose(%s), prefix has kind %d at %d", label, d.Kind, r.pos)})
		}
		r.pos++
		r.decs = append(r.decs, d)
		r.chooses = append(r.chooses, ChooseRec{label, n, int(d.Val)})
		return int(d.Val)
	}
	for i := n - 1; i >= 1; i-- {
		r.enqueue(Dec{Kind: dChoose, Val: uint64(i), Label: label}, r.model)
	}
	r.decs = append(r.decs, Dec{Kind: dChoose, Val: 0, Label: label})
	r.pos++
	r.chooses = append(r.chooses, ChooseRec{label, n, 0})
	return 0
}

func (r *Run) assume(c Int) {
	r.flushAsserts()
	if c.N == nil {
		if c.C == 0 {
			panic(abortPath{"assume(false)"})
		}
		return
	}
	if k := r.known(c.N); k > 0 {
		return
	} else if k < 0 {
		panic(abortPath{"assume infeasible"})
	}
	if !r.evalBool(c.N) {
		res, m := r.query(c.N)
		if res != Sat {
			if res == Unknown {
				panic(abortPath{"assume: solver unknown"})
			}
			panic(abortPath{"assume infeasible"})
		}
		r.model = m
	}
	r.assertNode(c.N)
}

func (r *Run) snapshotInputs(model []uint64) []InputRec {
	ins := make([]InputRec, len(r.inputs))
	copy(ins, r.inputs)
	for i := range ins {
		if i < len(model) {
			ins[i].Value = model[i] & mask(uint8(ins[i].Width))
		}
	}
	return ins
}

func (r *Run) recordCex(kind, id, msg string, model []uint64, fr *frame) {
	cx := &Counterexample{Assertion: id, Msg: msg, Kind: kind, Inputs: r.snapshotInputs(model),
		Chooses: append([]ChooseRec{}, r.chooses...), Decs: append([]Dec{}, r.decs...), Model: model}
	if fr != nil {
		cx.Stack = fr.stack()
	}
	if len(r.trace) > 0 {
		n := len(r.trace)
		if n > 60 {
			n = 60
		}
		cx.Trace = append([]string{}, r.trace[len(r.trace)-n:]...)
	}
	r.cexs = append(r.cexs, cx)
}

var assertBatch = 1

type pendAssert struct {
	n     *Node
	id    string
	msg   string
	stack string
}

// assert records the obligation PC ⇒ c. Symbolic obligations are collected and discharged together
// (one query per batch): at every Assume, and when the path ends. They are NOT added to the path
// condition, so inputs that violate one still flow down whatever path they take.
func (r *Run) assert(c Int, id, msg string, fr *frame) {
	r.asserts[id]++
	r.obligations++
	if c.N == nil {
		if c.C == 0 {
			r.recordCex("assert", id, msg, r.model, fr)
			// the path cannot continue on the "holds" side
			panic(abortPath{"assertion " + id + " failed concretely"})
		}
		r.discharged++
		return
	}
	if r.known(c.N) > 0 {
		r.discharged++
		return
	}
	if assertBatch <= 1 {
		// immediate: one query per obligation
		res, m := r.query(r.pool.BNot(c.N))
		switch res {
		case Sat:
			r.recordCex("assert", id, msg, m, fr)
		case Unsat:
			r.discharged++
		}
		// continue on the side where it holds
		if !r.evalBool(c.N) {
			res2, m2 := r.query(c.N)
			if res2 != Sat {
				panic(abortPath{"assertion fails on every continuation"})
			}
			r.model = m2
		}
		r.assertNode(c.N)
		return
	}
	st := ""
	if fr != nil {
		st = fr.stack()
	}
	r.pend = append(r.pend, pendAssert{c.N, id, msg, st})
	if len(r.pend) >= assertBatch {
		r.flushAsserts()
	}
}

// flushAsserts decides all pending obligations with one query: PC ∧ (¬c1 ∨ … ∨ ¬cn).
func (r *Run) flushAsserts() {
	if len(r.pend) == 0 || r.sol == nil {
		r.pend = nil
		return
	}
	pend := r.pend
	r.pend = nil
	p := r.pool
	// fast path: the current model already violates one of them
	for _, pa := range pend {
		if !r.evalBool(pa.n) {
			r.recordCexStack("assert", pa.id, pa.msg, r.model, pa.stack)
		}
	}
	bad := p.ff
	for _, pa := range pend {
		bad = p.BOr(bad, p.BNot(pa.n))
	}
	for {
		res, m := r.query(bad)
		switch res {
		case Unsat:
			r.discharged += int64(len(pend))
			return
		case Unknown:
			// the batch was too hard: decide its members one by one
			if len(r.inconcl) > 0 && len(pend) > 1 {
				r.inconcl = r.inconcl[:len(r.inconcl)-1]
				for _, pa := range pend {
					res1, m1 := r.query(p.BNot(pa.n))
					switch res1 {
					case Sat:
						r.recordCexStack("assert", pa.id, pa.msg, m1, pa.stack)
					case Unsat:
						r.discharged++
					}
				}
			}
			return
		}
		// sat: report every obligation the model violates, then look for violations of the others
		rest := pend[:0:0]
		bad = p.ff
		found := false
		for _, pa := range pend {
			if p.Eval(pa.n, m) == 0 {
				r.recordCexStack("assert", pa.id, pa.msg, m, pa.stack)
				found = true
			} else {
				rest = append(rest, pa)
				bad = p.BOr(bad, p.BNot(pa.n))
			}
		}
		if !found || len(rest) == 0 {
			return
		}
		pend = rest
	}
}

func (r *Run) recordCexStack(kind, id, msg string, model []uint64, stack string) {
	for _, c := range r.cexs {
		if c.Assertion == id {
			return
		}
	}
	r.recordCex(kind, id, msg, model, nil)
	r.cexs[len(r.cexs)-1].Stack = stack
}

func (r *Run) newInput(w uint8, name string) Int {
	idx := len(r.inputs)
	if name == "" {
		name = fmt.Sprintf("in%d", idx)
	}
	r.inputs = append(r.inputs, InputRec{Name: name, Width: int(w)})
	if r.job.Concrete != nil {
		var v uint64
		if idx < len(r.concrete) {
			v = r.concrete[idx]
		}
		// keep variable numbering aligned
		r.pool.Var(w, name)
		return mkInt(w, v)
	}
	n := r.pool.Var(w, name)
	return Int{W: w, N: n}
}

func (r *Run) unwindFailure(fr *frame) {
	if r.knownFaultKey != "" {
		r.knownHits[r.knownFaultKey]++
		panic(abortPath{"non-termination attributed to known finding " + r.knownFaultKey})
	}
	r.recordCex("unwind", "unwind", fmt.Sprintf("loop bound %d exceeded in %s block %d", r.unwind, fr.fn, fr.block.Index), r.model, fr)
	panic(abortPath{"unwind bound exceeded"})
}

func (r *Run) stepBudgetExceeded(fr *frame) {
	if r.knownFaultKey != "" {
		r.knownHits[r.knownFaultKey]++
		panic(abortPath{"non-termination attributed to known finding " + r.knownFaultKey})
	}
	r.recordCex("unwind", "steps", fmt.Sprintf("step budget %d exceeded (non-termination?) in %s", r.maxSteps, fr.fn), r.model, fr)
	panic(abortPath{"step budget exceeded"})
}

// ---- job driver ----

func (j *Job) Explore(nworkers int, solverBin string, solverArgs []string, logDir string) {
	j.cond = sync.NewCond(&j.mu)
	j.Cexs = map[string]*Counterexample{}
	j.CexCount = map[string]int{}
	j.Reach = map[string]int64{}
	j.FnCount = map[string]int64{}
	j.AssertChecks = map[string]int64{}
	j.LazyGlobals = map[string]bool{}
	j.Trusted = map[string]bool{}
	j.KnownHits = map[string]int64{}
	if j.Known == nil {
		j.Known = map[string]bool{}
	}
	j.stack = []*WorkItem{{}}
	var wg sync.WaitGroup
	if os.Getenv("GOSYM_PROGRESS") != "" {
		done := make(chan struct{})
		defer close(done)
		go func() {
			t := time.NewTicker(5 * time.Second)
			defer t.Stop()
			for {
				select {
				case <-done:
					return
				case <-t.C:
					j.mu.Lock()
					fmt.Fprintf(os.Stderr, "  .. %s: paths=%d dropped=%d pending=%d active=%d cex=%d\n", j.Name, j.Paths, j.Dropped, len(j.stack), j.active, len(j.Cexs))
					j.mu.Unlock()
				}
			}
		}()
	}
	for i := 0; i < nworkers; i++ {
		wg.Add(1)
		go func(id int) {
			defer wg.Done()
			w := &Worker{id: id, consts: map[*ssa.Const]Value{}, methods: map[methKey]*ssa.Function{}, impls: map[implKey]bool{}}
			if j.Concrete == nil {
				lp := ""
				if logDir != "" {
					lp = fmt.Sprintf("%s/solver-%s-%d.smt2", logDir, sanitize(j.Name), id)
				}
				s, err := NewSolver(solverBin, solverArgs, lp)
				if err != nil {
					fmt.Fprintln(os.Stderr, "cannot start solver:", err)
					os.Exit(2)
				}
				w.sol = s
				defer func() {
					j.mu.Lock()
					for k := range s.Queries {
						j.Queries[k] += s.Queries[k]
					}
					j.SolverTime += s.Time
					j.SolverRetries += s.Retries
					j.SolverRescued += s.Rescued
					if s.Errors > 0 {
						j.Inconclusive = append(j.Inconclusive, fmt.Sprintf("solver errors: %d", s.Errors))
					}
					j.mu.Unlock()
					s.Close()
				}()
			}
			for {
				j.mu.Lock()
				for len(j.stack) == 0 && j.active > 0 && !j.stop {
					j.cond.Wait()
				}
				if j.stop || (len(j.stack) == 0 && j.active == 0) {
					j.mu.Unlock()
					j.cond.Broadcast()
					return
				}
				it := j.stack[len(j.stack)-1]
				j.stack = j.stack[:len(j.stack)-1]
				j.active++
				j.mu.Unlock()

				run := j.runOne(w, it)

				j.mu.Lock()
				j.active--
				j.merge(run)
				if j.MaxPaths > 0 && j.Paths >= j.MaxPaths && len(j.stack) > 0 {
					j.BudgetHit = fmt.Sprintf("path budget %d exhausted with %d items pending", j.MaxPaths, len(j.stack))
					j.stop = true
				}
				if !j.Deadline.IsZero() && time.Now().After(j.Deadline) && len(j.stack) > 0 {
					j.BudgetHit = fmt.Sprintf("time budget exhausted with %d items pending", len(j.stack))
					j.stop = true
				}
				j.mu.Unlock()
				j.cond.Broadcast()
			}
		}(i)
	}
	wg.Wait()
}

func sanitize(s string) string {
	return strings.Map(func(r rune) rune {
		if r == '/' || r == ' ' || r == '*' || r == '(' || r == ')' {
			return '_'
		}
		return r
	}, s)
}

func (j *Job) merge(r *Run) {
	j.Paths++
	if r.dropped {
		j.Dropped++
	}
	j.Decisions += int64(len(r.decs))
	j.States += int64(len(r.decs)) + 1
	j.Steps += r.steps
	for k, v := range r.reach {
		j.Reach[k] += v
	}
	for k, v := range r.fnCount {
		j.FnCount[k] += v
	}
	for k, v := range r.asserts {
		j.AssertChecks[k] += v
	}
	for k := range r.lazyGlobals {
		j.LazyGlobals[k] = true
	}
	for k, v := range r.knownHits {
		j.KnownHits[k] += v
	}
	if len(r.digests) > 0 {
		j.Digests = r.digests
	}
	if j.Concrete != nil && r.vos != nil {
		j.Events = append([]Event(nil), r.vos.events...)
	}
	j.Obligations += r.obligations
	j.Discharged += r.discharged
	j.Inconclusive = append(j.Inconclusive, r.inconcl...)
	for _, cx := range r.cexs {
		j.CexCount[cx.Assertion]++
		if _, ok := j.Cexs[cx.Assertion]; !ok {
			j.Cexs[cx.Assertion] = cx
		}
	}
	if len(j.Samples) < 6 && !r.dropped && (len(j.Samples) < 2 || j.Paths%37 == 0) {
		s := map[string]interface{}{
			"inputs":    r.snapshotInputs(r.model),
			"decisions": len(r.decs),
			"chooses":   r.chooses,
			"outcome":   "completed",
			"steps":     r.steps,
		}
		if len(r.cexs) > 0 {
			s["outcome"] = "counterexample:" + r.cexs[0].Assertion
		}
		j.Samples = append(j.Samples, s)
	}
}

func (j *Job) runOne(w *Worker, it *WorkItem) (r *Run) {
	r = &Run{P: j.P, job: j, w: w, pool: NewPool(), sol: w.sol, prefix: it.decs, model: it.model,
		globals: map[*ssa.Global]*Obj{}, lazyGlobals: map[string]bool{}, fnCount: map[string]int64{}, reach: map[string]int64{},
		lits: map[int32]bool{}, asserts: map[string]int64{}, knownHits: map[string]int64{}, maxSteps: j.MaxSteps, unwind: j.Unwind, mapRotate: j.MapRot,
		locks: map[lockKey]*lockState{}, onces: map[lockKey]*onceState{}, pools: map[lockKey][]Value{}}
	if r.maxSteps == 0 {
		r.maxSteps = 200_000_000
	}
	if r.unwind == 0 {
		r.unwind = 1 << 20
	}
	if j.Concrete != nil {
		for _, in := range j.Concrete.Inputs {
			r.concrete = append(r.concrete, in.Value)
		}
		r.replayCh = j.Concrete.Chooses
	}
	r.vos = newVOS(r)
	main := &G{id: 0, r: r, status: gRunning, wake: make(chan struct{}, 1)}
	r.gs = []*G{main}
	r.cur = main
	if r.sol != nil {
		r.sol.Push()
	}
	defer func() {
		p := recover()
		r.killGoroutines()
		if _, isEngErr := p.(engineError); !isEngErr {
			func() {
				defer func() {
					if q := recover(); q != nil {
						r.inconcl = append(r.inconcl, fmt.Sprintf("flushing assertions failed: %v", q))
					}
				}()
				r.flushAsserts()
			}()
		}
		if r.sol != nil {
			r.sol.Pop()
			r.sol.flush()
		}
		switch p := p.(type) {
		case nil:
		case abortPath:
			r.dropped = true
			r.dropReason = p.reason
		case engineError:
			j.mu.Lock()
			if len(j.EngineErrors) < 20 {
				j.EngineErrors = append(j.EngineErrors, p.msg)
			}
			j.mu.Unlock()
			r.dropped = true
		case fatalFault:
			if r.knownFaultKey != "" {
				r.knownHits[r.knownFaultKey]++
				r.dropped = true
				break
			}
			r.recordCex("fault", "no-fault", p.msg, r.model, nil)
			if r.cur != nil && r.cur.top != nil {
				r.cexs[len(r.cexs)-1].Stack = r.cur.top.stack()
			}
		case targetPanic:
			r.recordCex("panic", "no-panic", "unexpected Go panic: "+r.panicString(p.v), r.model, nil)
			r.cexs[len(r.cexs)-1].Stack = r.lastPanicStack
		default:
			panic(p)
		}
	}()
	if os.Getenv("GOSYM_WATCHDOG") != "" {
		doneCh := make(chan struct{})
		defer close(doneCh)
		go func() {
			select {
			case <-doneCh:
			case <-time.After(45 * time.Second):
				fmt.Fprintf(os.Stderr, "WATCHDOG: slow path: chooses=%v decs=%d steps=%d concretizations pending; last trace: %v\n", r.chooses, len(r.decs), r.steps, lastN(r.trace, 5))
			}
		}()
	}
	// package initialisers
	for _, pkg := range j.P.initOrder() {
		r.callSSA(nil, pkg.Func("init"), nil, nil, 0)
	}
	r.callSSA(nil, j.Fn, nil, nil, 0)
	return r
}

func (r *Run) panicString(v Value) string {
	switch x := v.(type) {
	case Iface:
		if x.T == nil {
			return "nil"
		}
		switch xv := x.V.(type) {
		case Str:
			return xv.S
		case Ptr:
			// error value: try Error()
			if s, ok := r.tryErrorString(x); ok {
				return s
			}
			return fmt.Sprintf("(%v)", x.T)
		case Int:
			return fmt.Sprintf("%v(%d)", x.T, xv.C)
		}
		if s, ok := r.tryErrorString(x); ok {
			return s
		}
		return fmt.Sprintf("(%v)", x.T)
	}
	return fmt.Sprintf("%v", v)
}

func (r *Run) tryErrorString(x Iface) (res string, ok bool) {
	defer func() {
		if p := recover(); p != nil {
			ok = false
		}
	}()
	ms := r.P.prog.MethodSets.MethodSet(x.T)
	sel := ms.Lookup(nil, "Error")
	if sel == nil {
		return "", false
	}
	f := r.P.prog.MethodValue(sel)
	if f == nil {
		return "", false
	}
	v := r.callSSA(nil, f, []Value{x.V}, nil, 0)
	if s, isS := v.(Str); isS {
		return s.S, true
	}
	return "", false
}

func (P *Program) initOrder() []*ssa.Package {
	var ps []*ssa.Package
	for path := range P.initAllow {
		if p := P.pkgByPath[path]; p != nil && p.Func("init") != nil {
			ps = append(ps, p)
		}
	}
	sort.Slice(ps, func(i, k int) bool { return ps[i].Pkg.Path() < ps[k].Pkg.Path() })
	return ps
}

var _ = types.Typ

func lastN(s []string, n int) []string {
	if len(s) > n {
		return s[len(s)-n:]
	}
	return s
}
