#!/bin/bash
# seedproc.sh <ID> <m> <check>... : verify demo (no suite), stash into seeded/_incoming, run the given checks on a worktree
id=$1; m=$2; shift 2
/verif/tools/verify_seed.sh /tmp/seed/$id.out/$m /tmp/seedverify/$id-$m nosuite
echo "$id-$m: $(grep rc= /tmp/seedverify/$id-$m/result.txt | tr '\n' ' ')"
mkdir -p /verif/seeded/_incoming/$id-$m; cp /tmp/seed/$id.out/$m/patch.diff /tmp/seed/$id.out/$m/meta.json /tmp/seed/$id.out/$m/zz_demo*_test.go /verif/seeded/_incoming/$id-$m/ 2>/dev/null
/verif/tools/seedwt.sh /tmp/seed/$id.out/$m $id-$m "$@" | tee -a /tmp/matrix2.txt
