package bbolt

// D-COMPACT (C15): Compact(dst, src, txMaxSize) with a symbolic transaction-size limit.

import (
	zz "go.etcd.io/bbolt/internal/zzverif"
)

// zzCompactSource builds a source with nesting depth 2, inline and paged buckets, an empty bucket, an
// empty nested bucket with a sequence, an empty value, a two-page value and symbolic sequences.
func zzCompactSource(db *DB, ps int) {
	err := db.Update(func(tx *Tx) error {
		a, err := tx.CreateBucket([]byte("a"))
		if err != nil {
			return err
		}
		if err := a.SetSequence(zz.U64("seqA")); err != nil {
			return err
		}
		if err := a.Put([]byte("empty"), []byte{}); err != nil {
			return err
		}
		if err := a.Put([]byte("k1"), zzVal(ps*2+10, 'T')); err != nil {
			return err
		}
		in, err := a.CreateBucket([]byte("in")) // inline nested
		if err != nil {
			return err
		}
		if err := in.SetSequence(zz.U64("seqIn")); err != nil {
			return err
		}
		if err := in.Put([]byte("x"), []byte("y")); err != nil {
			return err
		}
		pg, err := a.CreateBucket([]byte("pg")) // paged nested with a deeper level
		if err != nil {
			return err
		}
		if err := pg.SetSequence(zz.U64("seqPg")); err != nil {
			return err
		}
		for i := 0; i < 3; i++ {
			if err := pg.Put([]byte{'p', byte('0' + i)}, zzVal(ps*3/10, 'p')); err != nil {
				return err
			}
		}
		// optionally enough large values in the nested bucket to outgrow the destination's initial map
		// while a transaction that started inside this bucket is being committed
		for i := 0; i < zz.Param("bigpg", 0); i++ {
			if err := pg.Put([]byte{'q', byte('a' + i)}, zzVal(3000, 'q')); err != nil {
				return err
			}
		}
		deep, err := pg.CreateBucket([]byte("deep"))
		if err != nil {
			return err
		}
		if err := deep.SetSequence(zz.U64("seqDeep")); err != nil {
			return err
		}
		en, err := a.CreateBucket([]byte("zempty")) // empty nested bucket with a sequence
		if err != nil {
			return err
		}
		if err := en.SetSequence(zz.U64("seqEmptyNested")); err != nil {
			return err
		}
		e, err := tx.CreateBucket([]byte("e")) // empty top-level bucket
		if err != nil {
			return err
		}
		return e.SetSequence(zz.U64("seqE"))
	})
	zz.Assert(err == nil, "compact/source")
}

func HarnessCompact() {
	c := zzConfig()
	srcPath, dstPath := zz.TempPath("src.db"), zz.TempPath("dst.db")
	src := zzMustOpen(srcPath, c, "compact/src")
	zzCompactSource(src, c.pageSize)
	// some garbage to reclaim
	_ = src.Update(func(tx *Tx) error { return tx.Bucket([]byte("a")).Put([]byte("tmp"), zzVal(c.pageSize*3, 'g')) })
	_ = src.Update(func(tx *Tx) error { return tx.Bucket([]byte("a")).Delete([]byte("tmp")) })
	want := zzViewDump(src, "compact/src-dump")
	zz.Assert(src.Close() == nil, "compact/src-close")
	srcBytes := zz.FileBytes(srcPath)
	// reopen read-only, as the tool does
	ro := c.options()
	ro.ReadOnly = true
	src, err := Open(srcPath, 0400, ro)
	zz.Assert(err == nil, "compact/src-open-ro")
	dst := zzMustOpen(dstPath, c, "compact/dst")
	limit := int64(zz.U32("txMaxSize"))
	zz.Assume(limit <= int64(zz.Param("maxlimit", 8192)))
	ev0 := zz.EventCount()
	err = Compact(dst, src, limit)
	zz.Assert(err == nil, "compact/Compact")
	zz.Assert(zzSameKVs(zzViewDump(dst, "compact/dst-dump"), want), "compact/destination-content-equals-source")
	zzCheckAll(dst, dstPath, c, "compact/dst")
	zz.Assert(dst.Close() == nil, "compact/dst-close")
	zz.Assert(src.Close() == nil, "compact/src-close2")
	// the source is unchanged and was never written
	after := zz.FileBytes(srcPath)
	zz.Assert(len(after) == len(srcBytes), "compact/source-length-unchanged")
	same := true
	for i := range after {
		if i < len(srcBytes) {
			same = zz.And(same, after[i] == srcBytes[i])
		}
	}
	zz.Assert(same, "compact/source-bytes-unchanged")
	for i := ev0; i < zz.EventCount(); i++ {
		k, p, _, _, _ := zz.Event(i)
		zz.Assert(!(p == srcPath && (k == "pwrite" || k == "write" || k == "ftruncate")), "compact/no-write-to-source")
	}
	// reopened destination still equals the source
	dst = zzMustOpen(dstPath, c, "compact/dst-reopen")
	zz.Assert(zzSameKVs(zzViewDump(dst, "compact/dst-dump2"), want), "compact/destination-content-after-reopen")
	zz.Assert(dst.Close() == nil, "compact/dst-close2")
	zz.Reach("done")
}
