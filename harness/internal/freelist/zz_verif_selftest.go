package freelist

import (
	"unsafe"

	"go.etcd.io/bbolt/internal/common"
	zz "go.etcd.io/bbolt/internal/zzverif"
)

// SelfTestFreelist: a concrete operation tape on both backends, observations compared between the
// engine and the native build.
func SelfTestFreelist() {
	for backend := 0; backend < 2; backend++ {
		f, _ := zzNew(backend)
		// span sizes are chosen so that no Allocate below has two equally good candidates: the hashmap
		// backend picks "any" span of a size class by map iteration, which natively is random
		f.Init(common.Pgids{3, 4, 5, 6, 7, 9, 10, 18})
		zz.Digest("alloc3", uint64(f.Allocate(100, 3)))
		zz.Digest("alloc1", uint64(f.Allocate(100, 1)))
		zz.Digest("alloc5-none", uint64(f.Allocate(100, 5)))
		buf := make([]byte, 64)
		p := (*common.Page)(unsafe.Pointer(&buf[0]))
		p.SetId(20)
		p.SetOverflow(2)
		f.Free(101, p)
		p.SetId(9)
		p.SetOverflow(0)
		zz.Digest("double-free-panics", b2u(zzCatch(func() { f.Free(101, p) })))
		f.AddReadonlyTXID(100)
		f.ReleasePendingPages()
		zz.Digest("pending-with-reader", uint64(f.PendingCount()))
		f.RemoveReadonlyTXID(100)
		f.ReleasePendingPages()
		zz.Digest("pending-without-reader", uint64(f.PendingCount()))
		zz.Digest("free", uint64(f.FreeCount()))
		ids := f.freePageIds()
		h := uint64(0)
		for _, id := range ids {
			h = h*1000003 + uint64(id)
		}
		zz.Digest("free-ids", h)
		pg := make([]byte, 4096)
		pp := (*common.Page)(unsafe.Pointer(&pg[0]))
		f.Write(pp)
		hh := uint64(0)
		for i := 0; i < 16+8*len(ids); i++ {
			hh = hh*131 + uint64(pg[i])
		}
		zz.Digest("page-image", hh)
		zz.Digest("estimate", uint64(f.EstimatedWritePageSize()))
		f.Rollback(101)
		f.Reload(pp)
		zz.Digest("free-after-reload", uint64(f.FreeCount()))
	}
}

func b2u(b bool) uint64 {
	if b {
		return 1
	}
	return 0
}
