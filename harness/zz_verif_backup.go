package bbolt

// D-BACKUP (C14): Tx.WriteTo / Tx.CopyFile of a reader begun at a symbolic point of a history.

import (
	"os"

	"go.etcd.io/bbolt/internal/common"
	zz "go.etcd.io/bbolt/internal/zzverif"
)

type zzCountWriter struct {
	n   int64
	buf []byte
}

func (w *zzCountWriter) Write(p []byte) (int, error) {
	w.n += int64(len(p))
	w.buf = append(w.buf, p...)
	return len(p), nil
}

func HarnessBackup() {
	c := zzConfig()
	if c.initMmap < 256<<10 {
		// the reader is held by the goroutine that also commits: a remap would wait for it forever
		// (documented for bbolt), so the map is made large enough for the whole history
		c.initMmap = 256 << 10
	}
	path := zz.TempPath("backup.db")
	db := zzMustOpen(path, c, "backup")
	zzSetup(db, zz.Param("setup", 1))
	ncommits := zz.Param("commits", 3)
	at := zz.Choose(ncommits + 1) // the reader begins after `at` further commits
	var rtx *Tx
	var snap []zzKV
	var size0 int64
	begin := func() {
		var err error
		rtx, err = db.Begin(false)
		zz.Assert(err == nil, "backup/reader-begin")
		snap = zzDump(rtx)
		size0 = rtx.Size()
	}
	for i := 0; i < ncommits; i++ {
		if i == at {
			begin()
		}
		err := db.Update(func(tx *Tx) error {
			b := tx.Bucket([]byte("b"))
			switch i % 3 {
			case 0:
				return b.Put(zzSymKey("bk"), zzVal(c.pageSize*3/10, 'X'))
			case 1:
				return b.Put([]byte("ovb"), zzVal(c.pageSize+50, 'O'))
			default:
				return b.Delete([]byte("k08"))
			}
		})
		zz.Assert(err == nil, "backup/commit")
	}
	if rtx == nil {
		begin()
	}
	size := rtx.Size()
	// the size of a snapshot does not change while other transactions commit
	zz.Assert(size == size0, "backup/Size-is-stable-for-the-snapshot")
	dst := zz.TempPath("backup.copy")
	mode := zz.Choose(3)
	switch mode {
	case 0:
		zz.Reach("WriteTo-writer")
		w := &zzCountWriter{}
		n, err := rtx.WriteTo(w)
		zz.Assert(err == nil, "backup/WriteTo")
		zz.Assert(n == size && w.n == size, "backup/bytes-written-equals-Size")
		zz.WriteFileBytes(dst, w.buf)
	case 1:
		zz.Reach("CopyFile")
		// an older, longer file already sits at the destination
		zz.WriteFileBytes(dst, make([]byte, int(size)+3*c.pageSize))
		zz.Assert(rtx.CopyFile(dst, 0600) == nil, "backup/CopyFile")
	case 2:
		zz.Reach("WriteFlag-file-replaced")
		// the file at the database path is replaced (rename) between Begin and the copy
		other := zz.TempPath("other.db")
		odb := zzMustOpen(other, c, "backup/other")
		zzSetup(odb, 1)
		_ = odb.Update(func(tx *Tx) error { return tx.Bucket([]byte("b")).Put([]byte("k00"), zzVal(c.pageSize*3/10, '!')) })
		zz.Assert(odb.Close() == nil, "backup/other-close")
		zz.Assert(os.Rename(other, path) == nil, "backup/rename")
		rtx.WriteFlag = 0x4000
		zz.Assert(rtx.CopyFile(dst, 0600) == nil, "backup/CopyFile-WriteFlag")
	}
	zz.Assert(zz.FileSize(dst) == size, "backup/file-length-equals-Size")
	zz.Assert(rtx.Rollback() == nil, "backup/reader-close")
	// both meta pages of the copy are valid and describe the snapshot (independent decoder)
	im := zzDecode(zz.FileBytes(dst), c.pageSize)
	zz.Assert(im.meta[0].ok && im.meta[1].ok, "backup/both-meta-pages-of-the-copy-valid")
	// the copy is exactly the snapshot's pages: its length is its own high-water mark
	zz.Assert(int64(im.m.hwm)*int64(c.pageSize) == size, "backup/copy-length-is-the-snapshots-high-water-mark")
	zz.Assert(im.meta[0].root == im.meta[1].root && im.meta[0].hwm == im.meta[1].hwm && im.meta[0].freelist == im.meta[1].freelist, "backup/metas-describe-the-same-tree")
	// the copy opens and holds the snapshot, all pages accounted for
	cdb := zzMustOpen(dst, c, "backup/open-copy")
	zz.Assert(zzSameKVs(zzViewDump(cdb, "backup/copy"), snap), "backup/copy-content-equals-snapshot")
	zzCheckAll(cdb, dst, c, "backup/copy")
	zz.Assert(cdb.Close() == nil, "backup/copy-close")
	if mode != 2 {
		zz.Assert(db.Close() == nil, "backup/close")
	}
	zz.Reach("done")
	_ = common.PgidNoFreelist
}
