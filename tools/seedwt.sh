#!/bin/bash
# seedwt.sh <seed-dir> <label> <check-id>... : like seedrun.sh but on a scratch worktree of /repo HEAD with the
# seeded change applied (GOSYM_REPO), so several seeds can be examined in parallel and /repo stays untouched.
# Extra gosym flags: SEED_EXTRA; tier: SEED_TIER; binary: SEED_BIN.
SD=$1; LABEL=$2; shift 2
WT=$(mktemp -d /tmp/seedwt-run-XXXXXX)
git -C /repo worktree add --detach "$WT" HEAD >/dev/null 2>&1 || { echo "$LABEL worktree-failed"; exit 1; }
trap 'git -C /repo worktree remove --force "$WT" >/dev/null 2>&1; rm -rf "$WT"' EXIT
git -C "$WT" apply "$SD/patch.diff" || { echo "$LABEL patch-does-not-apply"; exit 1; }
cd /verif
for chk in "$@"; do
  t0=$(date +%s)
  GOSYM_VERIF=/verif GOSYM_REPO=$WT timeout -k 5 ${SEED_TIMEOUT:-2400} ${SEED_BIN:-./bin/gosym} run -property $chk -tier ${SEED_TIER:-quick} -out /tmp/matrix_ev_$LABEL.json -no-native ${SEED_EXTRA:-} > /tmp/matrix_${LABEL}_$chk.log 2>&1; rc=$?
  ids=$(grep -o "^  assertion [^ ]*" /tmp/matrix_${LABEL}_$chk.log | sed 's/  assertion //' | sort -u | head -5 | tr '\n' ',')
  inc=$(grep -c INCONCLUSIVE /tmp/matrix_${LABEL}_$chk.log)
  echo "$LABEL check=$chk rc=$rc $(( $(date +%s)-t0 ))s asserts=$ids inconclusive=$inc"
done
