package main

import (
	"fmt"
	"go/constant"
	"go/token"
	"go/types"
	"strings"
	"sync"

	"golang.org/x/tools/go/ssa"
)

// Program: shared, read-only after load.
type Program struct {
	prog      *ssa.Program
	fset      *token.FileSet
	fnInfos   sync.Map // *ssa.Function -> *fnInfo
	initAllow map[string]bool
	rtErrStr  types.Type // runtime.errorString
	errStrPtr types.Type // *errors.errorString
	errStrT   types.Type
	pkgByPath map[string]*ssa.Package
	wrapErrT  types.Type
	errnoT    types.Type
	osFileT   types.Type
	fileStatT types.Type
	ioEOF     *ssa.Global
}

type intrinsicFn func(fr *frame, fn *ssa.Function, args []Value) Value

type fnInfo struct {
	idx       map[ssa.Value]int32
	nvals     int
	intrinsic intrinsicFn
	name      string
	isInit    bool
	skipInit  bool
}

func (P *Program) info(fn *ssa.Function) *fnInfo {
	if fi, ok := P.fnInfos.Load(fn); ok {
		return fi.(*fnInfo)
	}
	fi := &fnInfo{idx: make(map[ssa.Value]int32), name: fn.String()}
	n := int32(0)
	for _, p := range fn.Params {
		fi.idx[p] = n
		n++
	}
	for _, fv := range fn.FreeVars {
		fi.idx[fv] = n
		n++
	}
	for _, b := range fn.Blocks {
		for _, ins := range b.Instrs {
			if v, ok := ins.(ssa.Value); ok {
				fi.idx[v] = n
				n++
			}
		}
	}
	fi.nvals = int(n)
	fi.intrinsic = lookupIntrinsic(fi.name)
	if fn.Name() == "init" && fn.Pkg != nil && fn.Parent() == nil && fn.Signature.Recv() == nil && fn.Pkg.Func("init") == fn {
		fi.isInit = true
		fi.skipInit = !P.initAllow[fn.Pkg.Pkg.Path()]
	}
	P.fnInfos.Store(fn, fi)
	return fi
}

type deferred struct {
	fn   Value
	args []Value
	tail *deferred
}

type frame struct {
	r           *Run
	g           *G
	caller      *frame
	fn          *ssa.Function
	info        *fnInfo
	env         []Value
	block, prev *ssa.BasicBlock
	defers      *deferred
	result      Value
	panicking   bool
	panicV      interface{}
	visits      []int32
	pos         token.Pos
	depth       int
	panicStack  string
}

func (fr *frame) get(v ssa.Value) Value {
	switch v := v.(type) {
	case *ssa.Const:
		return fr.r.constValue(v)
	case *ssa.Global:
		return Ptr{O: fr.r.global(v)}
	case *ssa.Function:
		return v
	case *ssa.Builtin:
		return v
	case nil:
		return nil
	}
	i, ok := fr.info.idx[v]
	if !ok {
		panic(fmt.Sprintf("get: no slot for %T %s in %s", v, v.Name(), fr.fn))
	}
	return fr.env[i]
}

func (fr *frame) set(v ssa.Value, x Value) { fr.env[fr.info.idx[v]] = x }

func (r *Run) constValue(c *ssa.Const) Value {
	if v, ok := r.w.consts[c]; ok {
		return v
	}
	v := r.constValue1(c)
	r.w.consts[c] = v
	return v
}

func (r *Run) constValue1(c *ssa.Const) Value {
	t := c.Type()
	if c.Value == nil {
		return zero(t)
	}
	if b, ok := t.Underlying().(*types.Basic); ok {
		switch {
		case b.Info()&types.IsBoolean != 0:
			return mkBool(constant.BoolVal(c.Value))
		case b.Info()&types.IsString != 0:
			if c.Value.Kind() == constant.String {
				return Str{S: constant.StringVal(c.Value)}
			}
			return Str{S: string(rune(c.Int64()))}
		case b.Info()&types.IsInteger != 0:
			w := intWidth(b)
			if isSigned(t) {
				return mkInt(w, uint64(c.Int64()))
			}
			return mkInt(w, c.Uint64())
		case b.Info()&types.IsFloat != 0:
			w := uint8(64)
			if b.Kind() == types.Float32 {
				w = 32
			}
			return Float{F: c.Float64(), W: w}
		case b.Info()&types.IsComplex != 0:
			cv := c.Complex128()
			return Complex{real(cv), imag(cv)}
		}
	}
	unsupported("constant %v of type %v", c, t)
	return nil
}

func (r *Run) global(g *ssa.Global) *Obj {
	if o, ok := r.globals[g]; ok {
		return o
	}
	t := g.Type().(*types.Pointer).Elem()
	o := r.newObj(sizeof(t), "global:"+g.String())
	r.globals[g] = o
	// globals of packages whose init is not executed: materialise error values lazily
	if g.Pkg != nil && !r.P.initAllow[g.Pkg.Pkg.Path()] {
		if gs := g.String(); gs == "os.Stdout" || gs == "os.Stderr" || gs == "os.Stdin" {
			fo := r.newObj(sizeof(r.P.osFileT), gs)
			fo.Ext = &OFD{std: true, path: gs, fd: map[string]int{"os.Stdin": 0, "os.Stdout": 1, "os.Stderr": 2}[gs]}
			r.store(o, 0, t, Ptr{O: fo})
		}
		if types.Identical(t, errorType) && r.P.errStrT != nil {
			eo := r.newObj(sizeof(r.P.errStrT), "lazy-error:"+g.String())
			r.store(eo, 0, types.Typ[types.String], Str{S: g.String()})
			r.store(o, 0, t, Iface{T: r.P.errStrPtr, V: Ptr{O: eo}})
		}
		r.lazyGlobals[g.String()] = true
	}
	return o
}

var errorType = types.Universe.Lookup("error").Type()

// goPanic raises a Go-level panic with the given interface value.
func (r *Run) goPanic(v Value) { panic(targetPanic{v}) }

func (r *Run) goPanicStr(msg string) {
	panic(targetPanic{Iface{T: r.P.rtErrStr, V: Str{S: msg}}})
}

// call invokes a function value.
func (r *Run) call(caller *frame, fn Value, args []Value, pos token.Pos) Value {
	switch f := fn.(type) {
	case *ssa.Function:
		if f == nil {
			r.goPanicStr("runtime error: invalid memory address or nil pointer dereference (nil func)")
		}
		return r.callSSA(caller, f, args, nil, pos)
	case *Closure:
		if f == nil {
			r.goPanicStr("runtime error: invalid memory address or nil pointer dereference (nil func)")
		}
		return r.callSSA(caller, f.Fn, args, f.Env, pos)
	case *ssa.Builtin:
		return r.callBuiltin(caller, f, args, pos)
	case nil:
		r.goPanicStr("runtime error: invalid memory address or nil pointer dereference (nil func)")
	}
	panic(fmt.Sprintf("cannot call %T", fn))
}

func (r *Run) callSSA(caller *frame, fn *ssa.Function, args []Value, env []Value, pos token.Pos) Value {
	info := r.P.info(fn)
	var g *G
	if caller != nil {
		g = caller.g
	} else {
		g = r.cur
	}
	fr := &frame{r: r, g: g, caller: caller, fn: fn, info: info}
	if info.intrinsic != nil {
		r.fnCount[info.name]++
		return info.intrinsic(fr, fn, args)
	}
	if r.stubs != nil {
		if v, ok := r.stubs[info.name]; ok {
			r.fnCount["stub:"+info.name]++
			return v
		}
	}
	if info.isInit && info.skipInit {
		return nil
	}
	if fn.Blocks == nil {
		unsupported("no body for function %s (called from %s)", info.name, callerName(caller))
	}
	if fn.TypeParams().Len() > 0 && len(fn.TypeArgs()) == 0 {
		unsupported("uninstantiated generic %s", info.name)
	}
	g.depth++
	fr.depth = g.depth
	g.top = fr
	if g.depth > 3000 {
		panic(fatalFault{"stack overflow (call depth > 3000) in " + info.name})
	}
	r.fnCount[info.name]++
	fr.env = make([]Value, info.nvals)
	fr.visits = make([]int32, len(fn.Blocks))
	n := 0
	for range fn.Params {
		fr.env[n] = args[n]
		n++
	}
	for i := range fn.FreeVars {
		fr.env[n] = env[i]
		n++
	}
	fr.block = fn.Blocks[0]
	for fr.block != nil {
		r.runFrame(fr)
	}
	g.depth = fr.depth - 1
	g.top = caller
	return fr.result
}

func callerName(fr *frame) string {
	if fr == nil {
		return "<top>"
	}
	return fr.fn.String()
}

func isTargetPanic(p interface{}) bool {
	_, ok := p.(targetPanic)
	return ok
}

func (r *Run) runFrame(fr *frame) {
	defer func() {
		if fr.block == nil {
			return // normal return
		}
		p := recover()
		if !isTargetPanic(p) {
			panic(p) // engine-level unwinding: do not run target defers
		}
		fr.panicking = true
		fr.panicV = p
		if fr.panicStack == "" {
			if fr.g.top != nil {
				fr.panicStack = fr.g.top.stack()
			}
			r.lastPanicStack = fr.panicStack
		}
		fr.g.top = fr
		fr.runDefers()
		fr.g.depth = fr.depth
		// recovered
		fr.block = fr.fn.Recover
		if fr.block == nil {
			// function without named results: return zero values
			fr.result = zero(fr.fn.Signature.Results())
			if t, ok := fr.result.(Tuple); ok && len(t) == 1 {
				fr.result = t[0]
			}
		}
	}()
	for {
		blk := fr.block
		fr.visits[blk.Index]++
		if fr.visits[blk.Index] > r.unwind {
			r.unwindFailure(fr)
		}
		instrs := blk.Instrs
		// phis
		i := 0
		if _, ok := instrs[0].(*ssa.Phi); ok {
			predIndex := -1
			for k, p := range blk.Preds {
				if p == fr.prev {
					predIndex = k
					break
				}
			}
			var tmp [8]Value
			temps := tmp[:0]
			for ; i < len(instrs); i++ {
				phi, ok := instrs[i].(*ssa.Phi)
				if !ok {
					break
				}
				temps = append(temps, fr.get(phi.Edges[predIndex]))
			}
			for k := 0; k < i; k++ {
				fr.set(instrs[k].(*ssa.Phi), temps[k])
			}
		}
		r.steps += int64(len(instrs))
		if r.steps > r.maxSteps {
			r.stepBudgetExceeded(fr)
		}
		jumped := false
		for ; i < len(instrs); i++ {
			switch fr.visit(instrs[i]) {
			case kReturn:
				return
			case kJump:
				jumped = true
			}
		}
		if !jumped {
			panic("block fell through: " + fr.fn.String())
		}
	}
}

type continuation int

const (
	kNext continuation = iota
	kReturn
	kJump
)

func (fr *frame) runDefers() {
	for d := fr.defers; d != nil; d = fr.defers {
		fr.defers = d.tail
		fr.runDefer(d)
	}
	if fr.panicking {
		panic(fr.panicV)
	}
}

func (fr *frame) runDefer(d *deferred) {
	ok := false
	defer func() {
		if !ok {
			p := recover()
			if !isTargetPanic(p) {
				panic(p)
			}
			fr.panicking = true
			fr.panicV = p
		}
	}()
	fr.r.call(fr, d.fn, d.args, fr.pos)
	ok = true
}

func (fr *frame) prepareCall(c *ssa.CallCommon) (Value, []Value) {
	v := fr.get(c.Value)
	var fn Value
	var args []Value
	if c.Method == nil {
		fn = v
		args = make([]Value, 0, len(c.Args))
	} else {
		recv := v.(Iface)
		if recv.T == nil {
			fr.r.goPanicStr("runtime error: invalid memory address or nil pointer dereference (method call on nil interface)")
		}
		f := fr.r.lookupMethod(recv.T, c.Method)
		if f == nil {
			unsupported("method %s not found for dynamic type %v", c.Method, recv.T)
		}
		fn = f
		args = make([]Value, 0, len(c.Args)+1)
		args = append(args, recv.V)
	}
	for _, a := range c.Args {
		args = append(args, fr.get(a))
	}
	return fn, args
}

type methKey struct {
	t types.Type
	m *types.Func
}

func (r *Run) lookupMethod(t types.Type, m *types.Func) *ssa.Function {
	k := methKey{t, m}
	if f, ok := r.w.methods[k]; ok {
		return f
	}
	f := r.P.prog.LookupMethod(t, m.Pkg(), m.Name())
	r.w.methods[k] = f
	return f
}

func deref(t types.Type) types.Type {
	if p, ok := t.Underlying().(*types.Pointer); ok {
		return p.Elem()
	}
	panic(fmt.Sprintf("deref of non-pointer %v", t))
}

func (fr *frame) visit(instr ssa.Instruction) continuation {
	r := fr.r
	switch instr := instr.(type) {
	case *ssa.DebugRef:
	case *ssa.UnOp:
		fr.pos = instr.Pos()
		fr.set(instr, r.unop(fr, instr, fr.get(instr.X)))
	case *ssa.BinOp:
		fr.pos = instr.Pos()
		fr.set(instr, r.binop(instr.Op, instr.X.Type(), fr.get(instr.X), fr.get(instr.Y)))
	case *ssa.Call:
		fr.pos = instr.Pos()
		fn, args := fr.prepareCall(&instr.Call)
		fr.set(instr, r.call(fr, fn, args, instr.Pos()))
	case *ssa.ChangeInterface:
		fr.set(instr, fr.get(instr.X))
	case *ssa.ChangeType:
		fr.set(instr, fr.get(instr.X))
	case *ssa.Convert:
		fr.set(instr, r.conv(instr.Type(), instr.X.Type(), fr.get(instr.X)))
	case *ssa.MultiConvert:
		fr.set(instr, r.conv(instr.Type(), instr.X.Type(), fr.get(instr.X)))
	case *ssa.SliceToArrayPointer:
		s := fr.get(instr.X).(Slice)
		n := deref(instr.Type()).Underlying().(*types.Array).Len()
		if s.Len < n {
			r.goPanicStr("runtime error: cannot convert slice to array pointer: length too short")
		}
		if s.O == nil {
			fr.set(instr, Ptr{})
		} else {
			fr.set(instr, Ptr{O: s.O, Off: s.Off})
		}
	case *ssa.MakeInterface:
		fr.set(instr, Iface{T: instr.X.Type(), V: fr.get(instr.X)})
	case *ssa.Extract:
		fr.set(instr, fr.get(instr.Tuple).(Tuple)[instr.Index])
	case *ssa.Slice:
		fr.pos = instr.Pos()
		fr.set(instr, r.sliceOp(instr, fr.get(instr.X), fr.get(instr.Low), fr.get(instr.High), fr.get(instr.Max)))
	case *ssa.Return:
		switch len(instr.Results) {
		case 0:
		case 1:
			fr.result = fr.get(instr.Results[0])
		default:
			res := make(Tuple, len(instr.Results))
			for i, x := range instr.Results {
				res[i] = fr.get(x)
			}
			fr.result = res
		}
		fr.block = nil
		return kReturn
	case *ssa.RunDefers:
		fr.runDefers()
	case *ssa.Panic:
		fr.pos = instr.Pos()
		panic(targetPanic{fr.get(instr.X)})
	case *ssa.Send:
		r.chanSend(fr.get(instr.Chan).(*ChanObj), fr.get(instr.X))
	case *ssa.Store:
		fr.pos = instr.Pos()
		p := fr.get(instr.Addr).(Ptr)
		r.store(p.O, p.Off, instr.Val.Type(), fr.get(instr.Val))
	case *ssa.If:
		c := fr.get(instr.Cond).(Int)
		succ := 1
		var b bool
		if c.N == nil {
			b = c.C != 0
		} else {
			fr.pos = instr.Pos()
			b = r.branch(c.N, fr)
		}
		if b {
			succ = 0
		}
		fr.prev, fr.block = fr.block, fr.block.Succs[succ]
		return kJump
	case *ssa.Jump:
		fr.prev, fr.block = fr.block, fr.block.Succs[0]
		return kJump
	case *ssa.Defer:
		fn, args := fr.prepareCall(&instr.Call)
		if instr.DeferStack != nil {
			unsupported("defer with explicit DeferStack (range-over-func)")
		}
		fr.defers = &deferred{fn: fn, args: args, tail: fr.defers}
	case *ssa.Go:
		fn, args := fr.prepareCall(&instr.Call)
		r.spawn(fn, args, instr.Pos())
	case *ssa.MakeChan:
		n := r.concInt(fr.get(instr.Size), "chan-size")
		fr.set(instr, &ChanObj{cap: int(n), elem: instr.Type().Underlying().(*types.Chan).Elem()})
	case *ssa.Alloc:
		t := deref(instr.Type())
		fr.set(instr, Ptr{O: r.newObj(sizeof(t), "alloc")})
	case *ssa.MakeSlice:
		fr.pos = instr.Pos()
		ln := int64(r.concInt(fr.get(instr.Len), "makeslice-len"))
		cp := int64(r.concInt(fr.get(instr.Cap), "makeslice-cap"))
		if ln < 0 || cp < ln || cp > 1<<31 {
			r.goPanicStr("runtime error: makeslice: len out of range")
		}
		es := sizeof(instr.Type().Underlying().(*types.Slice).Elem())
		o := r.newObj(cp*es, "makeslice")
		fr.set(instr, Slice{O: o, Len: ln, Cap: cp})
	case *ssa.MakeMap:
		mt := instr.Type().Underlying().(*types.Map)
		fr.set(instr, &MapObj{keyT: mt.Key(), elemT: mt.Elem()})
	case *ssa.Range:
		fr.set(instr, r.rangeIter(fr.get(instr.X), instr.X.Type()))
	case *ssa.Next:
		fr.set(instr, r.iterNext(fr.get(instr.Iter), instr))
	case *ssa.FieldAddr:
		p := fr.get(instr.X).(Ptr)
		if p.O == nil {
			fr.pos = instr.Pos()
			r.goPanicStr("runtime error: invalid memory address or nil pointer dereference")
		}
		st := deref(instr.X.Type())
		fr.set(instr, Ptr{O: p.O, Off: p.Off + fieldOffsets(st)[instr.Field]})
	case *ssa.Field:
		fr.set(instr, fr.get(instr.X).(Struct)[instr.Field])
	case *ssa.IndexAddr:
		fr.pos = instr.Pos()
		x := fr.get(instr.X)
		switch x := x.(type) {
		case Slice:
			es := sizeof(instr.X.Type().Underlying().(*types.Slice).Elem())
			idx := r.indexCheck(fr.get(instr.Index).(Int), instr.Index.Type(), x.Len)
			fr.set(instr, Ptr{O: x.O, Off: x.Off + idx*es})
		case Ptr: // *array
			at := deref(instr.X.Type()).Underlying().(*types.Array)
			if x.O == nil {
				r.goPanicStr("runtime error: invalid memory address or nil pointer dereference")
			}
			es := sizeof(at.Elem())
			idx := r.indexCheck(fr.get(instr.Index).(Int), instr.Index.Type(), at.Len())
			fr.set(instr, Ptr{O: x.O, Off: x.Off + idx*es})
		default:
			panic(fmt.Sprintf("IndexAddr on %T", x))
		}
	case *ssa.Index:
		fr.pos = instr.Pos()
		x := fr.get(instr.X)
		switch x := x.(type) {
		case Array:
			idx := r.indexCheck(fr.get(instr.Index).(Int), instr.Index.Type(), int64(len(x)))
			fr.set(instr, x[idx])
		case Str:
			idx := r.indexCheck(fr.get(instr.Index).(Int), instr.Index.Type(), int64(len(x.S)))
			fr.set(instr, r.strByte(x, idx))
		default:
			panic(fmt.Sprintf("Index on %T", x))
		}
	case *ssa.Lookup:
		fr.pos = instr.Pos()
		fr.set(instr, r.lookup(instr, fr.get(instr.X), fr.get(instr.Index)))
	case *ssa.MapUpdate:
		fr.pos = instr.Pos()
		m := fr.get(instr.Map).(*MapObj)
		if m == nil {
			r.goPanicStr("assignment to entry in nil map")
		}
		r.mapUpdate(m, fr.get(instr.Key), fr.get(instr.Value))
	case *ssa.TypeAssert:
		fr.pos = instr.Pos()
		fr.set(instr, r.typeAssert(instr, fr.get(instr.X).(Iface)))
	case *ssa.MakeClosure:
		bindings := make([]Value, len(instr.Bindings))
		for i, b := range instr.Bindings {
			bindings[i] = fr.get(b)
		}
		fr.set(instr, &Closure{Fn: instr.Fn.(*ssa.Function), Env: bindings})
	case *ssa.Select:
		fr.pos = instr.Pos()
		fr.set(instr, r.selectOp(instr, fr))
	default:
		panic(fmt.Sprintf("unexpected instruction %T", instr))
	}
	return kNext
}

// indexCheck concretises an index and bounds-checks it (Go panic when out of range).
func (r *Run) indexCheck(idx Int, t types.Type, n int64) int64 {
	var i int64
	if idx.N == nil {
		i = sext64(idx.C, idx.W)
		if !isSigned(t) {
			i = int64(idx.C)
			if idx.C > 1<<62 {
				i = -1
			}
		}
	} else {
		// fork on in-range vs out-of-range first, then concretise
		p := r.pool
		var inb *Node
		nn := p.Const(idx.W, uint64(n))
		inb = p.Cmp(OpUlt, idx.N, nn) // unsigned compare also rejects negatives
		if !r.branch(inb, nil) {
			r.goPanicStr(fmt.Sprintf("runtime error: index out of range [symbolic] with length %d", n))
		}
		i = int64(r.concretize(idx, "index"))
	}
	if i < 0 || i >= n {
		r.goPanicStr(fmt.Sprintf("runtime error: index out of range [%d] with length %d", i, n))
	}
	return i
}

// concInt concretises an integer value (nil -> 0).
func (r *Run) concInt(v Value, what string) uint64 {
	if v == nil {
		return 0
	}
	iv := v.(Int)
	if iv.N == nil {
		return uint64(sext64(iv.C, iv.W))
	}
	c := r.concretize(iv, what)
	return uint64(sext64(c, iv.W))
}

func (r *Run) typeAssert(instr *ssa.TypeAssert, x Iface) Value {
	var ok bool
	if it, isI := instr.AssertedType.Underlying().(*types.Interface); isI {
		if x.T != nil {
			ok = r.implements(x.T, it)
		}
		var res Value = x
		if !ok {
			res = Iface{}
		}
		if instr.CommaOk {
			return Tuple{res, mkBool(ok)}
		}
		if !ok {
			r.goPanicStr(fmt.Sprintf("interface conversion: %v is not %v", typeStr(x.T), instr.AssertedType))
		}
		return res
	}
	ok = x.T != nil && types.Identical(x.T, instr.AssertedType)
	if instr.CommaOk {
		if ok {
			return Tuple{x.V, mkBool(true)}
		}
		return Tuple{zero(instr.AssertedType), mkBool(false)}
	}
	if !ok {
		r.goPanicStr(fmt.Sprintf("interface conversion: interface is %v, not %v", typeStr(x.T), instr.AssertedType))
	}
	return x.V
}

func typeStr(t types.Type) string {
	if t == nil {
		return "nil"
	}
	return t.String()
}

type implKey struct {
	t types.Type
	i *types.Interface
}

func (r *Run) implements(t types.Type, it *types.Interface) bool {
	k := implKey{t, it}
	if b, ok := r.w.impls[k]; ok {
		return b
	}
	b := types.Implements(t, it)
	r.w.impls[k] = b
	return b
}

func (r *Run) sliceOp(instr *ssa.Slice, x, lo, hi, max Value) Value {
	var l, h, m int64
	l = int64(r.concInt(lo, "slice-low"))
	switch x := x.(type) {
	case Str:
		n := int64(len(x.S))
		h = n
		if hi != nil {
			h = int64(r.concInt(hi, "slice-high"))
		}
		if l < 0 || h < l || h > n {
			r.goPanicStr(fmt.Sprintf("runtime error: slice bounds out of range [%d:%d] with length %d", l, h, n))
		}
		s := Str{S: x.S[l:h]}
		if x.N != nil {
			s.N = x.N[l:h]
		}
		return s
	case Slice:
		h = x.Len
		if hi != nil {
			h = int64(r.concInt(hi, "slice-high"))
		}
		m = x.Cap
		if max != nil {
			m = int64(r.concInt(max, "slice-max"))
		}
		if l < 0 || h < l || m < h || m > x.Cap {
			r.goPanicStr(fmt.Sprintf("runtime error: slice bounds out of range [%d:%d:%d] with capacity %d", l, h, m, x.Cap))
		}
		es := sizeof(instr.X.Type().Underlying().(*types.Slice).Elem())
		if x.O == nil {
			return Slice{}
		}
		return Slice{O: x.O, Off: x.Off + l*es, Len: h - l, Cap: m - l}
	case Ptr: // *array
		at := deref(instr.X.Type()).Underlying().(*types.Array)
		n := at.Len()
		h = n
		if hi != nil {
			h = int64(r.concInt(hi, "slice-high"))
		}
		m = n
		if max != nil {
			m = int64(r.concInt(max, "slice-max"))
		}
		if x.O == nil {
			r.goPanicStr("runtime error: invalid memory address or nil pointer dereference (slice of nil array pointer)")
		}
		if l < 0 || h < l || m < h || m > n {
			r.goPanicStr(fmt.Sprintf("runtime error: slice bounds out of range [%d:%d:%d] with array length %d", l, h, m, n))
		}
		es := sizeof(at.Elem())
		// The nominal array type may be larger than the object (unsafe casts): the real object bounds
		// are enforced at access time.
		return Slice{O: x.O, Off: x.Off + l*es, Len: h - l, Cap: m - l}
	}
	panic(fmt.Sprintf("slice of %T", x))
}

func (r *Run) strByte(s Str, i int64) Int {
	if s.N != nil && s.N[i] != nil {
		return Int{W: 8, N: s.N[i]}
	}
	return Int{W: 8, C: uint64(s.S[i])}
}

func posStr(P *Program, pos token.Pos) string {
	if pos == token.NoPos {
		return "?"
	}
	p := P.fset.Position(pos)
	f := p.Filename
	if i := strings.LastIndex(f, "/"); i >= 0 {
		f = f[i+1:]
	}
	return fmt.Sprintf("%s:%d", f, p.Line)
}

// stack renders the call stack of a frame.
func (fr *frame) stack() string {
	var sb strings.Builder
	for f := fr; f != nil; f = f.caller {
		fmt.Fprintf(&sb, "  %s (%s)\n", f.fn.String(), posStr(f.r.P, f.pos))
	}
	return sb.String()
}
