package bbolt

// K-NODE-CODEC (C12): node.write / WriteInodeToPage against the independent literal-offset decoder,
// and back through node.read / ReadInodeFromPage, with symbolic keys, values, flags and page ids.

import (
	"bytes"
	"unsafe"

	"go.etcd.io/bbolt/internal/common"
	zz "go.etcd.io/bbolt/internal/zzverif"
)

func HarnessNodeCodec() {
	ps := zz.Param("pagesize", 1024)
	leaf := zz.Choose(2) == 0
	n := &node{isLeaf: leaf}
	cnt := 1 + zz.Choose(zz.Param("maxinodes", 3))
	type ent struct {
		k, v  []byte
		flags uint32
		pgid  uint64
	}
	var ents []ent
	for i := 0; i < cnt; i++ {
		kl := 1 + zz.Choose(3)
		e := ent{k: zz.Bytes("key", kl)}
		if leaf {
			e.v = zz.Bytes("val", []int{0, 1, 3}[zz.Choose(3)])
			e.flags = uint32(zz.U8("flags") & 1)
		} else {
			e.pgid = zz.U64("pgid")
			zz.Assume(e.pgid != 7) // a page never points to itself (asserted by the writer)
		}
		ents = append(ents, e)
		var in common.Inode
		in.SetKey(e.k)
		in.SetValue(e.v)
		in.SetFlags(e.flags)
		in.SetPgid(common.Pgid(e.pgid))
		n.inodes = append(n.inodes, in)
	}
	buf := make([]byte, ps)
	p := (*common.Page)(unsafe.Pointer(&buf[0]))
	p.SetId(common.Pgid(7))
	n.write(p)
	// ---- independent decoding with literal offsets
	zz.Assert(zzU64(buf, 0) == 7, "codec/page-id@0")
	wantFlags := uint64(0x01)
	if leaf {
		wantFlags = 0x02
	}
	zz.Assert(zzU16(buf, 8) == wantFlags, "codec/page-flags@8")
	zz.Assert(int(zzU16(buf, 10)) == cnt, "codec/count@10")
	zz.Assert(zzU32(buf, 12) == 0, "codec/overflow@12")
	end := 16 + cnt*16
	for i, e := range ents {
		o := 16 + i*16
		var pos, ks, vs int
		if leaf {
			zz.Assert(zzU32(buf, o) == uint64(e.flags), "codec/leaf-elem-flags@0")
			pos, ks, vs = int(zzU32(buf, o+4)), int(zzU32(buf, o+8)), int(zzU32(buf, o+12))
			zz.Assert(vs == len(e.v), "codec/leaf-elem-vsize@12")
		} else {
			pos, ks = int(zzU32(buf, o)), int(zzU32(buf, o+4))
			zz.Assert(zzU64(buf, o+8) == e.pgid, "codec/branch-elem-pgid@8")
		}
		zz.Assert(ks == len(e.k), "codec/elem-ksize")
		zz.Assert(o+pos == end, "codec/elem-pos-is-relative-to-the-element-and-data-is-packed")
		if o+pos+ks+vs <= ps {
			zz.Assert(bytes.Equal(buf[o+pos:o+pos+ks], e.k), "codec/key-bytes")
			zz.Assert(bytes.Equal(buf[o+pos+ks:o+pos+ks+vs], e.v), "codec/value-bytes-follow-the-key")
		}
		end += ks + vs
	}
	// ---- and back through the real reader
	n2 := &node{}
	n2.read(p)
	zz.Assert(n2.isLeaf == leaf && len(n2.inodes) == cnt && n2.pgid == 7, "codec/read-header")
	if len(n2.inodes) == cnt {
		for i, e := range ents {
			in := n2.inodes[i]
			zz.Assert(len(in.Key()) == len(e.k) && bytes.Equal(in.Key(), e.k), "codec/roundtrip-key")
			if leaf {
				zz.Assert(len(in.Value()) == len(e.v) && bytes.Equal(in.Value(), e.v), "codec/roundtrip-value")
				zz.Assert(in.Flags() == e.flags, "codec/roundtrip-flags")
			} else {
				zz.Assert(uint64(in.Pgid()) == e.pgid, "codec/roundtrip-pgid")
			}
		}
	}
	zz.Assert(n.size() == end, "codec/node-size-equals-bytes-used")
	zz.Reach("done")
}

// HarnessBucketInline (C12): the 16-byte bucket header (root, sequence) followed by an inline leaf
// page, as written by Bucket.write and read by openBucket.
func HarnessBucketInline() {
	c := zzConfig()
	path := zz.TempPath("inl.db")
	db := zzMustOpen(path, c, "inl")
	seq := zz.U64("seq")
	k := zz.Bytes("k", 2)
	v := zz.Bytes("v", 3)
	err := db.Update(func(tx *Tx) error {
		b, err := tx.CreateBucket([]byte("p"))
		if err != nil {
			return err
		}
		nb, err := b.CreateBucket([]byte("inl"))
		if err != nil {
			return err
		}
		if err := nb.SetSequence(seq); err != nil {
			return err
		}
		return nb.Put(k, v)
	})
	zz.Assert(err == nil, "inl/update")
	// decode the file independently: p is an inline bucket of the root holding the inline bucket inl
	im := zzDecode(zz.FileBytes(path), c.pageSize)
	zz.Assertf(len(im.errs) == 0, "inl/R-structure", zzJoin(im.errs))
	found := false
	for _, e := range im.kvs {
		if e.bucket && e.depth == 1 && string(e.key) == "inl" {
			found = true
			zz.Assert(e.seq == seq, "inl/sequence@8-of-bucket-header")
		}
		if !e.bucket && e.depth == 2 {
			zz.Assert(bytes.Equal(e.key, k) && bytes.Equal(e.val, v), "inl/inline-page-content")
		}
	}
	zz.Assert(found, "inl/inline-bucket-decoded")
	zz.Assert(db.Close() == nil, "inl/close")
	zz.Reach("done")
}

// HarnessMetaSelect (K-META-SELECT; C01, C11): DB.meta() on an arbitrary pair of meta pages returns the
// valid one with the larger txid, the other one if that one is invalid (damaged magic, version or
// checksum), and panics only if both are invalid. Transaction ids are symbolic 64-bit values; the
// checksum of a valid page is the real Meta.Sum64 of its (symbolic) content.
func HarnessMetaSelect() {
	mk := func(name string) (*common.Meta, bool) {
		buf := make([]byte, 64)
		m := (*common.Meta)(unsafe.Pointer(&buf[0]))
		m.SetMagic(common.Magic)
		m.SetVersion(common.Version)
		m.SetPageSize(4096)
		m.SetRootBucket(common.NewInBucket(3, 0))
		m.SetFreelist(2)
		m.SetPgid(4)
		m.SetTxid(common.Txid(zz.U64(name + "txid")))
		m.SetChecksum(m.Sum64())
		valid := true
		switch zz.Choose(4) {
		case 1:
			valid = false
			buf[zz.Choose(4)] ^= 0x40 // magic
		case 2:
			valid = false
			buf[4+zz.Choose(4)] ^= 0x01 // version
		case 3:
			valid = false
			d := zz.U8(name + "damage")
			zz.Assume(d != 0)
			buf[56+zz.Choose(8)] ^= d // checksum field
		}
		return m, valid
	}
	m0, v0 := mk("m0")
	m1, v1 := mk("m1")
	db := &DB{meta0: m0, meta1: m1}
	var got *common.Meta
	panicked := zzCatch(func() { got = db.meta() })
	switch {
	case !v0 && !v1:
		zz.Reach("both-invalid")
		zz.Assert(panicked, "metaselect/both-invalid-panics")
	case v0 && v1:
		zz.Reach("both-valid")
		zz.Assert(!panicked, "metaselect/no-panic-with-a-valid-meta")
		if m1.Txid() > m0.Txid() {
			zz.Assert(got == m1, "metaselect/larger-txid-wins")
		} else if m0.Txid() > m1.Txid() {
			zz.Assert(got == m0, "metaselect/larger-txid-wins")
		} else {
			zz.Assert(got == m0 || got == m1, "metaselect/tie-returns-one-of-them")
		}
	case v0:
		zz.Reach("only-meta0-valid")
		zz.Assert(!panicked && got == m0, "metaselect/falls-back-to-the-valid-meta0")
	default:
		zz.Reach("only-meta1-valid")
		zz.Assert(!panicked && got == m1, "metaselect/falls-back-to-the-valid-meta1")
	}
}
