package main

import (
	"context"
	"encoding/json"
	"fmt"
	"os"
	"os/exec"
	"path/filepath"
	"strings"
	"time"
)

// nativeReplay runs the harness natively (real build of /repo, harness files overlaid) with the
// counterexample's inputs and harness-level choices.
func nativeReplay(rf *ReplayFile) map[string]interface{} {
	res := map[string]interface{}{}
	repro := true
	for _, c := range rf.Cex.Chooses {
		if strings.HasPrefix(c.Label, "i:") {
			if c.Val != 0 || strings.HasPrefix(c.Label, "i:maprot") || strings.HasPrefix(c.Label, "i:sched") {
				repro = false
			}
		}
	}
	if rf.Cex.Kind == "unwind" {
		res["note"] = "non-termination candidate: native run is under a deadline"
	}
	res["natively_reproducible"] = repro
	tmp, err := os.MkdirTemp("", "gosym-native-")
	if err != nil {
		res["status"] = "unavailable"
		res["error"] = err.Error()
		return res
	}
	defer os.RemoveAll(tmp)
	i := strings.LastIndex(rf.Fn, ".")
	pkgPath, fnName := rf.Fn[:i], rf.Fn[i+1:]
	rel := strings.TrimPrefix(strings.TrimPrefix(pkgPath, "go.etcd.io/bbolt"), "/")
	pkgName := pkgPath[strings.LastIndex(pkgPath, "/")+1:]
	// replay data
	type nat struct {
		Inputs  []InputRec       `json:"inputs"`
		Chooses []int            `json:"chooses"`
		Params  map[string]int64 `json:"params"`
		TmpDir  string           `json:"tmpdir"`
	}
	nd := nat{Inputs: rf.Cex.Inputs, Params: rf.Params, TmpDir: tmp}
	if rf.Cex.Kind == "" && len(rf.Cex.Chooses) == 0 && len(rf.Cex.Inputs) == 0 {
		res["selftest"] = true
	}
	for _, c := range rf.Cex.Chooses {
		if c.Label == "h" {
			nd.Chooses = append(nd.Chooses, c.Val)
		}
	}
	rb, _ := json.Marshal(nd)
	rpath := filepath.Join(tmp, "replay.json")
	os.WriteFile(rpath, rb, 0o644)
	// overlay
	ov := map[string]string{}
	hdir := filepath.Join(verifDir, "harness")
	filepath.Walk(hdir, func(p string, info os.FileInfo, err error) error {
		if err != nil || info.IsDir() || !strings.HasSuffix(p, ".go") || strings.HasSuffix(p, "_sym.go") {
			return nil
		}
		r, _ := filepath.Rel(hdir, p)
		ov[filepath.Join(repoDir, r)] = p
		return nil
	})
	test := fmt.Sprintf("package %s\n\nimport (\n\t\"testing\"\n\t\"go.etcd.io/bbolt/internal/zzverif\"\n)\n\nfunc TestZZVerifReplay(t *testing.T) { zzverif.NativeRun(t, %s) }\n", pkgName, fnName)
	tpath := filepath.Join(tmp, "zz_verif_replay_test.go")
	os.WriteFile(tpath, []byte(test), 0o644)
	ov[filepath.Join(repoDir, rel, "zz_verif_replay_test.go")] = tpath
	ob, _ := json.Marshal(map[string]interface{}{"Replace": ov})
	opath := filepath.Join(tmp, "overlay.json")
	os.WriteFile(opath, ob, 0o644)
	ctx, cancel := context.WithTimeout(context.Background(), 300*time.Second)
	defer cancel()
	target := "./" + rel
	if rel == "" {
		target = "."
	}
	cmd := exec.CommandContext(ctx, "go", "test", "-v", "-vet=off", "-count=1", "-overlay", opath, "-run", "^TestZZVerifReplay$", "-timeout", "120s", target)
	cmd.Dir = repoDir
	cmd.Env = append(os.Environ(), "GOFLAGS=-mod=mod", "GOPROXY=off", "GOSUMDB=off", "GOTOOLCHAIN=local", "ZZ_REPLAY="+rpath)
	out, err := cmd.CombinedOutput()
	s := string(out)
	res["cmd"] = strings.Join(cmd.Args, " ")
	tail := s
	if len(tail) > 3000 {
		tail = tail[len(tail)-3000:]
	}
	res["log_tail"] = tail
	res["log_full"] = s
	switch {
	case ctx.Err() != nil || strings.Contains(s, "test timed out") || strings.Contains(s, "panic: test timed out"):
		res["status"] = "hang"
	case strings.Contains(s, "ZZVERIF-UNSUPPORTED"):
		res["status"] = "unavailable"
	case strings.Contains(s, "ZZVERIF-ASSERT-FAIL"):
		res["status"] = "fails"
	case strings.Contains(s, "ZZVERIF-ASSUME-FAIL"):
		res["status"] = "diverged"
	case err != nil && (strings.Contains(s, "panic:") || strings.Contains(s, "fatal error:") || strings.Contains(s, "SIGSEGV")):
		res["status"] = "fails"
		res["note"] = "native run panicked/crashed"
	case err != nil && strings.Contains(s, "[build failed]"):
		res["status"] = "unavailable"
		res["note"] = "native build failed"
	case err != nil:
		res["status"] = "fails"
	default:
		res["status"] = "passes"
	}
	return res
}

// selfTest runs a concrete harness in the engine and natively and compares the digests.
func selfTest(P *Program, fnName string, params map[string]int64) (ok bool, detail string) {
	fn := P.findFunc(fnName)
	if fn == nil {
		return false, "self-test function not found: " + fnName
	}
	cx := &Counterexample{}
	job := &Job{P: P, Fn: fn, Name: "selftest", Params: params, Concrete: cx, Known: map[string]bool{}}
	job.Explore(1, "", nil, "")
	if len(job.Cexs) > 0 || len(job.EngineErrors) > 0 {
		var why []string
		for id, c := range job.Cexs {
			why = append(why, id+": "+c.Msg)
		}
		return false, fmt.Sprintf("engine run of %s failed: %v %v", fnName, why, job.EngineErrors)
	}
	rf := &ReplayFile{Fn: fnName, Params: params, Cex: cx}
	nat := nativeReplay(rf)
	if st, _ := nat["status"].(string); st != "passes" {
		return false, fmt.Sprintf("native run of %s: %v\n%v", fnName, nat["status"], nat["log_tail"])
	}
	var nd []string
	for _, ln := range strings.Split(nat["log_full"].(string), "\n") {
		if strings.HasPrefix(ln, "ZZVERIF-DIGEST ") {
			nd = append(nd, strings.TrimPrefix(ln, "ZZVERIF-DIGEST "))
		}
	}
	if len(nd) == 0 || len(nd) != len(job.Digests) {
		return false, fmt.Sprintf("%s: digest count differs: engine %d native %d", fnName, len(job.Digests), len(nd))
	}
	for i := range nd {
		if nd[i] != job.Digests[i] {
			return false, fmt.Sprintf("%s: digest %d differs: engine %s native %s", fnName, i, job.Digests[i], nd[i])
		}
	}
	return true, fmt.Sprintf("%s: %d observations identical in engine and native run", fnName, len(nd))
}
