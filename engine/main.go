package main

import (
	"encoding/json"
	"flag"
	"fmt"
	"go/types"
	"os"
	"path/filepath"
	"runtime"
	"sort"
	"strings"
	"time"

	"golang.org/x/tools/go/packages"
	"golang.org/x/tools/go/ssa"
	"golang.org/x/tools/go/ssa/ssautil"
)

var repoDir = "/repo" // GOSYM_REPO overrides (development only: scratch worktrees)

var verifDir = "/verif"

type HarnessSpec struct {
	Name           string             `json:"name"`
	Fn             string             `json:"fn"`  // "pkgpath.FuncName"
	Params         map[string]int64   `json:"params"`
	ParamsQuick    map[string]int64   `json:"params_quick"`
	ParamsThorough map[string]int64   `json:"params_thorough"`
	Configs        []map[string]int64 `json:"configs"`
	ConfigsThorough []map[string]int64 `json:"configs_thorough"`
	RequireReach   []string           `json:"require_reach"`
	MapRot         bool               `json:"maprot"`
	SchedAll       bool               `json:"sched_all"`
	PreemptBound   int                `json:"preempt_bound"`
	PreemptFuncs   []string           `json:"preempt_funcs"`
	PreemptBoundThorough int          `json:"preempt_bound_thorough"`
	MaxPaths       int64              `json:"max_paths"`
	MaxSeconds     int                `json:"max_seconds"`
	MaxSecondsThorough int            `json:"max_seconds_thorough"`
	Unwind         int32              `json:"unwind"`
	MaxSteps       int64              `json:"max_steps"`
	ThoroughOnly   bool               `json:"thorough_only"`
	Note           string             `json:"note"`
}

type PropertySpec struct {
	SelfTests   []string      `json:"selftests"`
	Harnesses   []HarnessSpec `json:"harnesses"`
	Assumptions []string      `json:"assumptions"`
	Bounds      string        `json:"bounds"`
	Outside     string        `json:"outside"`
}

func loadProgram(overlayNative bool) (*Program, error) {
	overlay := map[string][]byte{}
	hdir := filepath.Join(verifDir, "harness")
	err := filepath.Walk(hdir, func(p string, info os.FileInfo, err error) error {
		if err != nil || info.IsDir() || !strings.HasSuffix(p, ".go") {
			return err
		}
		if strings.HasSuffix(p, "_native.go") || strings.HasSuffix(p, "_test.go") {
			return nil
		}
		rel, _ := filepath.Rel(hdir, p)
		b, e := os.ReadFile(p)
		if e != nil {
			return e
		}
		overlay[filepath.Join(repoDir, rel)] = b
		return nil
	})
	if err != nil {
		return nil, err
	}
	cfg := &packages.Config{Mode: packages.LoadAllSyntax, Dir: repoDir, Overlay: overlay,
		Env: append(os.Environ(), "GOFLAGS=-mod=mod", "GOPROXY=off", "GOSUMDB=off", "GOTOOLCHAIN=local", "CGO_ENABLED=0")}
	pats := []string{".", "./internal/common", "./internal/freelist", "./internal/surgeon", "./internal/guts_cli", "./cmd/bbolt/command", "./internal/zzverif", "./errors"}
	pkgs, err := packages.Load(cfg, pats...)
	if err != nil {
		return nil, err
	}
	nerr := 0
	packages.Visit(pkgs, nil, func(p *packages.Package) {
		for _, e := range p.Errors {
			fmt.Fprintln(os.Stderr, "load error:", e)
			nerr++
		}
	})
	if nerr > 0 {
		return nil, fmt.Errorf("%d package load errors (harness does not compile against /repo)", nerr)
	}
	prog, _ := ssautil.AllPackages(pkgs, ssa.InstantiateGenerics)
	prog.Build()
	P := &Program{prog: prog, fset: prog.Fset, initAllow: map[string]bool{}, pkgByPath: map[string]*ssa.Package{}}
	for _, p := range prog.AllPackages() {
		P.pkgByPath[p.Pkg.Path()] = p
		if strings.HasPrefix(p.Pkg.Path(), "go.etcd.io/bbolt") {
			P.initAllow[p.Pkg.Path()] = true
		}
	}
	for _, s := range []string{"io", "bytes", "encoding/hex", "encoding/binary", "hash/fnv", "sort", "strings", "unicode/utf8", "slices", "cmp"} {
		P.initAllow[s] = true
	}
	delete(P.initAllow, "go.etcd.io/bbolt/cmd/bbolt/command") // cobra-heavy init; functions are called directly
	if rt := P.pkgByPath["runtime"]; rt != nil {
		P.rtErrStr = rt.Type("errorString").Type()
	}
	if ep := P.pkgByPath["errors"]; ep != nil {
		P.errStrT = ep.Type("errorString").Type()
		P.errStrPtr = types.NewPointer(P.errStrT)
	}
	if fp := P.pkgByPath["fmt"]; fp != nil {
		P.wrapErrT = fp.Type("wrapError").Type()
	}
	if sp := P.pkgByPath["syscall"]; sp != nil {
		P.errnoT = sp.Type("Errno").Type()
	}
	if op := P.pkgByPath["os"]; op != nil {
		P.osFileT = op.Type("File").Type()
		P.fileStatT = op.Type("fileStat").Type()
	}
	if ip := P.pkgByPath["io"]; ip != nil {
		P.ioEOF = ip.Var("EOF")
	}
	return P, nil
}

func (P *Program) findFunc(full string) *ssa.Function {
	i := strings.LastIndex(full, ".")
	pkg := P.pkgByPath[full[:i]]
	if pkg == nil {
		return nil
	}
	return pkg.Func(full[i+1:])
}

type jobResult struct {
	Spec   HarnessSpec
	Config map[string]int64
	Job    *Job
	Wall   float64
}

type knownEntry struct {
	Kind     string // known | fixed
	Property string
	Key      string
	Text     string
}

func loadKnown(path string) []knownEntry {
	b, err := os.ReadFile(path)
	if err != nil {
		return nil
	}
	var out []knownEntry
	for _, ln := range strings.Split(string(b), "\n") {
		ln = strings.TrimSpace(ln)
		if ln == "" || strings.HasPrefix(ln, "#") {
			continue
		}
		var e knownEntry
		switch {
		case strings.HasPrefix(ln, "known:"):
			e.Kind = "known"
			ln = strings.TrimSpace(ln[6:])
		case strings.HasPrefix(ln, "fixed:"):
			e.Kind = "fixed"
			ln = strings.TrimSpace(ln[6:])
		default:
			continue
		}
		for _, f := range strings.Fields(ln) {
			if strings.HasPrefix(f, "property=") {
				e.Property = f[9:]
			}
			if strings.HasPrefix(f, "key=") {
				e.Key = f[4:]
			}
		}
		if i := strings.Index(ln, "what="); i >= 0 {
			e.Text = ln[i+5:]
		} else {
			e.Text = ln
		}
		out = append(out, e)
	}
	return out
}

func main() {
	if d := os.Getenv("GOSYM_VERIF"); d != "" {
		// a snapshot of /verif (vp run): harnesses, checks.json, known findings, replays relative to it
		verifDir = d
	}
	if d := os.Getenv("GOSYM_REPO"); d != "" {
		repoDir = d
	}
	// the repository needs the newer toolchain (go.mod has a tool block)
	os.Setenv("PATH", "/opt/veriftools/go1.26.8/bin:"+os.Getenv("PATH"))
	os.Setenv("GOTOOLCHAIN", "local")
	os.Setenv("GOFLAGS", "-mod=mod")
	os.Setenv("GOPROXY", "off")
	os.Setenv("GOSUMDB", "off")
	if len(os.Args) < 2 {
		fmt.Fprintln(os.Stderr, "usage: gosym run|replay|list ...")
		os.Exit(2)
	}
	switch os.Args[1] {
	case "run":
		os.Exit(cmdRun(os.Args[2:]))
	case "replay":
		os.Exit(cmdReplay(os.Args[2:]))
	default:
		fmt.Fprintln(os.Stderr, "unknown command", os.Args[1])
		os.Exit(2)
	}
}

func mergeParams(ms ...map[string]int64) map[string]int64 {
	out := map[string]int64{}
	for _, m := range ms {
		for k, v := range m {
			out[k] = v
		}
	}
	return out
}

func cmdRun(args []string) int {
	fs := flag.NewFlagSet("run", flag.ExitOnError)
	checks := fs.String("checks", filepath.Join(verifDir, "checks.json"), "checks file")
	prop := fs.String("property", "", "property id")
	tier := fs.String("tier", "quick", "quick|thorough")
	only := fs.String("harness", "", "run only harnesses whose name contains this")
	workers := fs.Int("workers", runtime.NumCPU(), "workers")
	seed := fs.Int64("seed", 0, "seed")
	out := fs.String("out", "", "evidence file")
	solver := fs.String("solver", "z3", "solver binary")
	logDir := fs.String("logdir", "", "directory for solver logs")
	knownPath := fs.String("known", filepath.Join(verifDir, "known_findings.txt"), "known findings file")
	noNative := fs.Bool("no-native", false, "skip native replay")
	verbose := fs.Bool("v", false, "verbose")
	onlyCfg := fs.String("config", "", "run only configurations whose rendering contains this (development)")
	xcheck := fs.Int("xcheck", -1, "solver differential: worker scripts per harness config replayed on z3-new and cvc5 (-1: 0 quick, 3 thorough)")
	xcap := fs.Int("xcheck-cap", 120, "solver differential: seconds per replayed script")
	fs.Parse(args)
	if *xcheck < 0 {
		*xcheck = 0
		if *tier == "thorough" {
			*xcheck = 3
		}
	}
	ownLogDir := ""
	if *xcheck > 0 && *logDir == "" {
		d, err := os.MkdirTemp("", "gosym-xcheck-")
		if err == nil {
			ownLogDir = d
			*logDir = d
			defer os.RemoveAll(d)
		}
	}
	xtotal := map[string]*XStats{}
	t0 := time.Now()

	var all map[string]PropertySpec
	b, err := os.ReadFile(*checks)
	if err != nil {
		fmt.Fprintln(os.Stderr, err)
		return 2
	}
	if err := json.Unmarshal(b, &all); err != nil {
		fmt.Fprintln(os.Stderr, "checks.json:", err)
		return 2
	}
	ps, ok := all[*prop]
	if !ok {
		fmt.Fprintln(os.Stderr, "no such property in checks.json:", *prop)
		return 2
	}
	P, err := loadProgram(false)
	if err != nil {
		fmt.Fprintln(os.Stderr, "INCONCLUSIVE: cannot load /repo with harness overlay:", err)
		writeEvidence(*out, *prop, *tier, *seed, nil, ps, time.Since(t0).Seconds(), 0, []string{"load failed: " + err.Error()}, nil)
		return 2
	}
	loadSecs := time.Since(t0).Seconds()
	known := loadKnown(*knownPath)
	knownKeys := map[string]bool{}
	for _, k := range known {
		if k.Kind == "known" {
			// a finding is keyed by its trigger; harnesses shared between properties meet the same defect
			knownKeys[k.Key] = true
		}
	}

	var results []*jobResult
	var problems []string
	// translator validation: concrete self-test harnesses, engine vs native build, digests must agree
	var selfDetails []string
	selfOK := int64(0)
	if !*noNative {
		for _, st := range ps.SelfTests {
			ok, detail := selfTest(P, st, map[string]int64{})
			selfDetails = append(selfDetails, detail)
			if ok {
				selfOK++
			} else {
				problems = append(problems, "self-test (engine vs native): "+detail)
			}
		}
	}
	violations := 0
	knownHits := map[string]int64{}
	var vioLines []string
	for _, hs := range ps.Harnesses {
		if *only != "" && !strings.Contains(hs.Name, *only) {
			continue
		}
		if hs.ThoroughOnly && *tier != "thorough" {
			continue
		}
		fn := P.findFunc(hs.Fn)
		if fn == nil {
			problems = append(problems, "harness function not found: "+hs.Fn)
			continue
		}
		cfgs := hs.Configs
		if *tier == "thorough" && len(hs.ConfigsThorough) > 0 {
			cfgs = hs.ConfigsThorough
		}
		if len(cfgs) == 0 {
			cfgs = []map[string]int64{{}}
		}
		for _, cfg := range cfgs {
			if *onlyCfg != "" && !strings.Contains(cfgString(cfg), *onlyCfg) {
				continue
			}
			tp := hs.ParamsQuick
			if *tier == "thorough" {
				tp = hs.ParamsThorough
			}
			params := mergeParams(hs.Params, tp, cfg)
			job := &Job{P: P, Fn: fn, Name: hs.Name + cfgString(cfg), Params: params, Unwind: hs.Unwind, MaxSteps: hs.MaxSteps,
				MaxPaths: hs.MaxPaths, MapRot: hs.MapRot, SchedAll: hs.SchedAll, PreemptBound: hs.PreemptBound, PreemptFuncs: hs.PreemptFuncs, Known: knownKeys}
			if *tier == "thorough" && hs.PreemptBoundThorough > 0 {
				job.PreemptBound = hs.PreemptBoundThorough
			}
			secs := hs.MaxSeconds
			if *tier == "thorough" && hs.MaxSecondsThorough > 0 {
				secs = hs.MaxSecondsThorough
			}
			if secs > 0 {
				job.Deadline = time.Now().Add(time.Duration(secs) * time.Second)
			}
			tj := time.Now()
			job.Explore(*workers, *solver, []string{"-in"}, *logDir)
			res := &jobResult{Spec: hs, Config: cfg, Job: job, Wall: time.Since(tj).Seconds()}
			results = append(results, res)
			if *xcheck > 0 && *logDir != "" {
				var logs []string
				if des, err := os.ReadDir(*logDir); err == nil {
					pre := "solver-" + sanitize(job.Name) + "-"
					for _, de := range des {
						if strings.HasPrefix(de.Name(), pre) && strings.HasSuffix(de.Name(), ".smt2") {
							logs = append(logs, filepath.Join(*logDir, de.Name()))
						}
					}
				}
				xs, xp := crossCheckLogs(logs, *xcheck, time.Duration(*xcap)*time.Second)
				for _, st := range xs {
					t := xtotal[st.Solver]
					if t == nil {
						t = &XStats{Solver: st.Solver}
						xtotal[st.Solver] = t
					}
					t.Scripts += st.Scripts
					t.Compared += st.Compared
					t.Agree += st.Agree
					t.SecondaryUnk += st.SecondaryUnk
					t.Disagree += st.Disagree
					t.Truncated += st.Truncated
					t.Seconds += st.Seconds
				}
				for _, m := range xp {
					problems = append(problems, job.Name+": "+m)
					if ownLogDir != "" {
						// keep the scripts of a disagreement for inspection
						keep := filepath.Join(verifDir, "replays", "xcheck")
						os.MkdirAll(keep, 0o755)
						for _, l := range logs {
							if strings.Contains(m, l) {
								if b, err := os.ReadFile(l); err == nil {
									os.WriteFile(filepath.Join(keep, filepath.Base(l)), b, 0o644)
								}
							}
						}
					}
				}
				if ownLogDir != "" {
					for _, l := range logs {
						os.Remove(l)
					}
				}
			}
			if *verbose {
				fmt.Fprintf(os.Stderr, "[%s] paths=%d dropped=%d queries sat/unsat/unk=%d/%d/%d cex=%d wall=%.1fs\n", job.Name, job.Paths, job.Dropped,
					job.Queries[Sat], job.Queries[Unsat], job.Queries[Unknown], len(job.Cexs), res.Wall)
			}
			for k, v := range job.KnownHits {
				knownHits[k] += v
			}
			for _, m := range job.Inconclusive {
				problems = append(problems, job.Name+": "+m)
			}
			for _, m := range job.EngineErrors {
				problems = append(problems, job.Name+": engine: "+m)
			}
			if job.BudgetHit != "" {
				problems = append(problems, job.Name+": "+job.BudgetHit)
			}
			for _, lab := range hs.RequireReach {
				if job.Reach[lab] == 0 {
					problems = append(problems, fmt.Sprintf("%s: vacuous: required label %q never reached", job.Name, lab))
				}
			}
			if job.Paths-job.Dropped == 0 {
				problems = append(problems, job.Name+": vacuous: no complete feasible path")
			}
			// counterexamples: confirm by concrete re-execution, then natively
			ids := make([]string, 0, len(job.Cexs))
			for id := range job.Cexs {
				ids = append(ids, id)
			}
			sort.Strings(ids)
			for _, id := range ids {
				cx := job.Cexs[id]
				rp := confirmAndWrite(P, job, hs, cfg, params, cx, *prop, *noNative)
				if rp.Confirmed {
					violations++
					vioLines = append(vioLines, fmt.Sprintf("VIOLATION property=%s replay=%s", *prop, rp.Path))
					fmt.Fprintf(os.Stderr, "  assertion %s (%s): %s\n", cx.Assertion, cx.Kind, cx.Msg)
				} else {
					problems = append(problems, fmt.Sprintf("%s: counterexample for %s did not reproduce (%s) — engine/stub suspect", job.Name, id, rp.Why))
				}
			}
		}
	}
	wall := time.Since(t0).Seconds()
	var knownLines []string
	for _, k := range known {
		if k.Kind == "known" {
			if knownHits[k.Key] > 0 {
				// the line names the property the finding is listed under (a harness shared between
				// properties meets the same defect; it is one finding, listed once)
				knownLines = append(knownLines, fmt.Sprintf("KNOWN-FINDING: property=%s %s", k.Property, k.Text))
			} else if len(results) > 0 && *only == "" && k.Property == *prop {
				fmt.Fprintf(os.Stderr, "note: known finding %s no longer reproduces within this tier's bounds (stale entry?)\n", k.Key)
			}
		}
	}
	writeEvidence(*out, *prop, *tier, *seed, results, ps, wall, violations, problems, map[string]interface{}{"load_s": loadSecs, "known_findings_hit": knownHits, "selftest_traces_identical": selfOK, "selftests": selfDetails, "solver_differential": xsummary(xtotal, *xcheck)})
	for _, l := range knownLines {
		fmt.Println(l)
	}
	for _, l := range vioLines {
		fmt.Println(l)
	}
	if violations > 0 {
		return 1
	}
	if len(problems) > 0 {
		for _, p := range problems {
			fmt.Fprintln(os.Stderr, "INCONCLUSIVE:", p)
		}
		return 2
	}
	if len(results) == 0 {
		fmt.Fprintln(os.Stderr, "INCONCLUSIVE: no harness ran")
		return 2
	}
	fmt.Printf("OK property=%s tier=%s harness-configs=%d wall=%.1fs\n", *prop, *tier, len(results), wall)
	return 0
}

func xsummary(t map[string]*XStats, n int) interface{} {
	if n == 0 {
		return "not run in this tier (thorough tier replays worker scripts on z3 5.x and cvc5)"
	}
	var out []XStats
	for _, v := range t {
		out = append(out, *v)
	}
	sort.Slice(out, func(i, k int) bool { return out[i].Solver < out[k].Solver })
	return map[string]interface{}{"scripts_per_harness_config": n, "solvers": out,
		"note": "each script is the complete incremental SMT-LIB2 session of one worker (branch-feasibility and assertion queries); verdict sequences compared query by query with the deciding z3 4.8.12"}
}

func cfgString(cfg map[string]int64) string {
	if len(cfg) == 0 {
		return ""
	}
	ks := make([]string, 0, len(cfg))
	for k := range cfg {
		ks = append(ks, k)
	}
	sort.Strings(ks)
	var sb strings.Builder
	sb.WriteString("[")
	for i, k := range ks {
		if i > 0 {
			sb.WriteString(",")
		}
		fmt.Fprintf(&sb, "%s=%d", k, cfg[k])
	}
	sb.WriteString("]")
	return sb.String()
}

func writeEvidence(path, prop, tier string, seed int64, results []*jobResult, ps PropertySpec, wall float64, violations int, problems []string, extra map[string]interface{}) {
	if path == "" {
		return
	}
	var states, transitions, paths, dropped, oblig, disch, steps int64
	var q [3]int64
	var solverTime float64
	fnCount := map[string]int64{}
	reach := map[string]int64{}
	lazy := map[string]bool{}
	var samples []interface{}
	var per []map[string]interface{}
	traces := int64(0)
	if v, ok := extra["selftest_traces_identical"].(int64); ok {
		traces += v
	}
	for _, r := range results {
		j := r.Job
		states += j.States
		transitions += j.Decisions
		paths += j.Paths
		dropped += j.Dropped
		oblig += j.Obligations
		disch += j.Discharged
		steps += j.Steps
		for i := range q {
			q[i] += j.Queries[i]
		}
		solverTime += j.SolverTime.Seconds()
		for k, v := range j.FnCount {
			fnCount[k] += v
		}
		for k, v := range j.Reach {
			reach[j.Name+":"+k] += v
		}
		for k := range j.LazyGlobals {
			lazy[k] = true
		}
		for i, s := range j.Samples {
			if i < 2 {
				s["harness"] = j.Name
				samples = append(samples, s)
			}
		}
		traces += j.NativeRuns
		per = append(per, map[string]interface{}{"harness": j.Name, "params": j.Params, "paths": j.Paths, "paths_dropped_by_assume": j.Dropped,
			"decisions": j.Decisions, "assert_checks": j.AssertChecks, "obligations": j.Obligations, "discharged_unsat_or_concrete": j.Discharged,
			"queries": map[string]int64{"sat": j.Queries[Sat], "unsat": j.Queries[Unsat], "unknown": j.Queries[Unknown]},
			"solver_time_s": j.SolverTime.Seconds(), "wall_s": r.Wall, "reach": j.Reach, "counterexamples": j.CexCount, "ssa_steps": j.Steps,
			"known_findings_hit": j.KnownHits, "unknown_retried_in_fresh_solver": j.SolverRetries, "of_which_decided": j.SolverRescued})
	}
	type fc struct {
		n string
		c int64
	}
	var fcs []fc
	for k, v := range fnCount {
		if strings.Contains(k, "bbolt") && !strings.Contains(k, "zzverif") || strings.HasPrefix(k, "hash/") || strings.HasPrefix(k, "sort.") || strings.HasPrefix(k, "(*hash/") {
			fcs = append(fcs, fc{k, v})
		}
	}
	sort.Slice(fcs, func(i, k int) bool { return fcs[i].c > fcs[k].c })
	funcs := map[string]int64{}
	for i, f := range fcs {
		if i >= 150 {
			break
		}
		funcs[f.n] = f.c
	}
	var stubs []string
	for k := range fnCount {
		if lookupIntrinsic(k) != nil && !strings.Contains(k, "zzverif") {
			stubs = append(stubs, k)
		}
	}
	sort.Strings(stubs)
	var lz []string
	for k := range lazy {
		lz = append(lz, k)
	}
	sort.Strings(lz)
	if states == 0 {
		states = 1
	}
	if transitions == 0 {
		transitions = 1
	}
	if len(samples) == 0 {
		samples = append(samples, map[string]interface{}{"note": "no path completed", "problems": problems})
	}
	cov := map[string]interface{}{
		"states": states, "transitions": transitions, "traces_validated_against_impl": traces, "samples": samples,
		"paths": paths, "paths_dropped_by_assume": dropped, "obligations": oblig, "discharged": disch,
		"queries": map[string]int64{"sat": q[Sat], "unsat": q[Unsat], "unknown": q[Unknown]}, "solver_time_s": solverTime,
		"ssa_instructions_executed": steps, "functions_encoded": funcs, "functions_encoded_total": len(fnCount), "stubs_used": stubs,
		"lazily_materialised_globals": lz, "reach_labels": reach, "per_harness": per, "bounds": ps.Bounds, "outside_claim": ps.Outside,
		"inconclusive": problems, "exhaustive": len(problems) == 0,
		"explanation": "symbolic execution of the real SSA of /repo (regenerated this run); every listed path condition explored; assertions decided by z3 (QF_BV)",
	}
	for k, v := range extra {
		cov[k] = v
	}
	ev := map[string]interface{}{
		"property_id": prop, "tier": tier, "seed": seed, "level": "model_checking", "coverage": cov,
		"assumptions": ps.Assumptions, "wall_s": wall, "violations": violations,
	}
	b, _ := json.MarshalIndent(ev, "", " ")
	os.MkdirAll(filepath.Dir(path), 0o755)
	os.WriteFile(path, b, 0o644)
}
