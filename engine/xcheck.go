package main

// Solver differential: the incremental SMT-LIB2 script a worker sent to the deciding solver
// (z3 4.8.12) is logged together with the verdict of every (check-sat); the same script is
// replayed on the other installed solvers (z3 5.1.0 = z3-new, cvc5 --incremental) and the
// verdict sequences are compared query by query. A sat/unsat disagreement makes the check
// inconclusive; `unknown` from a secondary solver is counted, not believed either way.

import (
	"bufio"
	"bytes"
	"context"
	"fmt"
	"os"
	"os/exec"
	"path/filepath"
	"sort"
	"strings"
	"time"
)

type xSolver struct {
	Name string
	Bin  string
	Args []string
	IsZ3 bool
}

func availableXSolvers() []xSolver {
	var out []xSolver
	if p, err := exec.LookPath("z3-new"); err == nil {
		out = append(out, xSolver{Name: "z3-new(5.x)", Bin: p, Args: []string{"-in"}, IsZ3: true})
	}
	if p, err := exec.LookPath("cvc5"); err == nil {
		out = append(out, xSolver{Name: "cvc5", Bin: p, Args: []string{"--incremental", "--lang=smt2", "--tlimit-per=20000"}})
	}
	return out
}

type XStats struct {
	Solver       string  `json:"solver"`
	Scripts      int     `json:"scripts_replayed"`
	Compared     int64   `json:"queries_compared"`
	Agree        int64   `json:"agree"`
	SecondaryUnk int64   `json:"secondary_unknown"`
	Disagree     int64   `json:"sat_unsat_disagreements"`
	Truncated    int     `json:"scripts_cut_by_time_cap"`
	Seconds      float64 `json:"seconds"`
}

// expectedVerdicts extracts the "; RESULT x" comments the Solver wrote after every check-sat.
func expectedVerdicts(script []byte) []string {
	var out []string
	sc := bufio.NewScanner(bytes.NewReader(script))
	sc.Buffer(make([]byte, 1<<20), 1<<28)
	for sc.Scan() {
		l := sc.Text()
		if strings.HasPrefix(l, "; RESULT ") {
			out = append(out, strings.TrimSpace(l[len("; RESULT "):]))
		}
	}
	return out
}

func filterScript(script []byte, z3 bool) []byte {
	if z3 {
		return script
	}
	var sb bytes.Buffer
	sc := bufio.NewScanner(bytes.NewReader(script))
	sc.Buffer(make([]byte, 1<<20), 1<<28)
	for sc.Scan() {
		l := sc.Text()
		if strings.HasPrefix(l, "(set-option :timeout") {
			continue
		}
		sb.WriteString(l)
		sb.WriteByte('\n')
	}
	return sb.Bytes()
}

// crossCheckLogs replays up to maxScripts of the given solver logs (smallest first, so that many
// short paths rather than one long one are compared) on every secondary solver, each script under
// capPerScript. Returns per-solver statistics and a list of problems (disagreements).
func crossCheckLogs(logs []string, maxScripts int, capPerScript time.Duration) ([]XStats, []string) {
	type lf struct {
		p string
		n int64
	}
	var ls []lf
	for _, p := range logs {
		if st, err := os.Stat(p); err == nil && st.Size() > 0 {
			ls = append(ls, lf{p, st.Size()})
		}
	}
	sort.Slice(ls, func(i, k int) bool { return ls[i].n < ls[k].n })
	if maxScripts > 0 && len(ls) > maxScripts {
		// take a spread: smallest, median, largest ...
		pick := map[int]bool{}
		for i := 0; i < maxScripts; i++ {
			pick[i*(len(ls)-1)/max(1, maxScripts-1)] = true
		}
		var sel []lf
		for i := range ls {
			if pick[i] {
				sel = append(sel, ls[i])
			}
		}
		ls = sel
	}
	var stats []XStats
	var problems []string
	for _, xs := range availableXSolvers() {
		st := XStats{Solver: xs.Name}
		t0 := time.Now()
		type res struct {
			compared, agree, unk, dis int64
			trunc                     bool
			prob                      string
		}
		ch := make(chan res, len(ls))
		for _, l := range ls {
			go func(path string) {
				var r res
				script, err := os.ReadFile(path)
				if err != nil {
					ch <- r
					return
				}
				want := expectedVerdicts(script)
				ctx, cancel := context.WithTimeout(context.Background(), capPerScript)
				defer cancel()
				cmd := exec.CommandContext(ctx, xs.Bin, xs.Args...)
				cmd.Stdin = bytes.NewReader(filterScript(script, xs.IsZ3))
				var outb bytes.Buffer
				cmd.Stdout = &outb
				cmd.Stderr = nil
				_ = cmd.Run()
				if ctx.Err() != nil {
					r.trunc = true
				}
				var got []string
				sc := bufio.NewScanner(&outb)
				sc.Buffer(make([]byte, 1<<20), 1<<28)
				for sc.Scan() {
					l := strings.TrimSpace(sc.Text())
					switch l {
					case "sat", "unsat", "unknown", "timeout":
						got = append(got, l)
					default:
						if strings.HasPrefix(l, "(error") && r.prob == "" && !r.trunc {
							r.prob = fmt.Sprintf("%s on %s: %s", xs.Name, filepath.Base(path), l)
						}
					}
				}
				n := len(got)
				if len(want) < n {
					n = len(want)
				}
				if !r.trunc && len(got) != len(want) && r.prob == "" {
					r.prob = fmt.Sprintf("%s on %s: answered %d of %d queries", xs.Name, filepath.Base(path), len(got), len(want))
				}
				for i := 0; i < n; i++ {
					w, g := want[i], got[i]
					if w == "unknown" {
						continue
					}
					r.compared++
					switch {
					case g == w:
						r.agree++
					case g == "unknown" || g == "timeout":
						r.unk++
					default:
						r.dis++
						if r.prob == "" || !strings.Contains(r.prob, "DISAGREE") {
							r.prob = fmt.Sprintf("SOLVER DISAGREEMENT: %s says %s, z3 said %s, query #%d of %s", xs.Name, g, w, i, path)
						}
					}
				}
				ch <- r
			}(l.p)
		}
		for range ls {
			r := <-ch
			st.Scripts++
			st.Compared += r.compared
			st.Agree += r.agree
			st.SecondaryUnk += r.unk
			st.Disagree += r.dis
			if r.trunc {
				st.Truncated++
			}
			if r.prob != "" && (r.dis > 0 || strings.Contains(r.prob, "(error")) {
				problems = append(problems, r.prob)
			}
		}
		st.Seconds = time.Since(t0).Seconds()
		stats = append(stats, st)
	}
	return stats, problems
}
