package bbolt

import (
	zz "go.etcd.io/bbolt/internal/zzverif"
)

// HarnessSmoke: open, one update with a symbolic key, view, close, reopen, check.
func HarnessSmoke() {
	path := zz.TempPath("smoke.db")
	db, err := Open(path, 0600, &Options{PageSize: zz.Param("pagesize", 4096)})
	zz.Assert(err == nil, "smoke/open")
	if err != nil {
		return
	}
	k := zz.Bytes("k", 2)
	err = db.Update(func(tx *Tx) error {
		b, err := tx.CreateBucket([]byte("b"))
		if err != nil {
			return err
		}
		if err := b.Put([]byte("a0"), []byte("v0")); err != nil {
			return err
		}
		return b.Put(k, []byte("v1"))
	})
	zz.Assert(err == nil, "smoke/update")
	err = db.View(func(tx *Tx) error {
		b := tx.Bucket([]byte("b"))
		zz.Assert(b != nil, "smoke/bucket")
		v := b.Get(k)
		zz.Assert(v != nil && len(v) == 2 && v[1] == '1', "smoke/get")
		for e := range tx.Check() {
			_ = e
			zz.Assert(false, "smoke/check-clean")
		}
		return nil
	})
	zz.Assert(err == nil, "smoke/view")
	zz.Assert(db.Close() == nil, "smoke/close")
	db, err = Open(path, 0600, nil)
	zz.Assert(err == nil, "smoke/reopen")
	if err != nil {
		return
	}
	_ = db.View(func(tx *Tx) error {
		v := tx.Bucket([]byte("b")).Get(k)
		zz.Assert(v != nil && v[1] == '1', "smoke/get-after-reopen")
		return nil
	})
	zz.Assert(db.Close() == nil, "smoke/close2")
	zz.Reach("done")
}
