package bbolt

// D-CORRUPT (C19): one structural corruption of a listed class applied to a consistent image; the
// real Tx.Check must report at least one problem iff the independent decoder judges the image
// inconsistent.

import (
	"fmt"

	zz "go.etcd.io/bbolt/internal/zzverif"
)

type zzTreePage struct {
	id     uint64
	branch bool
	count  int
	depth  int
}

// zzTreePages lists the tree pages of the newest state (independent decoder).
func zzTreePages(im *zzImage) []zzTreePage {
	var out []zzTreePage
	var walk func(pg uint64, depth int)
	walk = func(pg uint64, depth int) {
		off := int(pg) * im.ps
		flags, count := int(zzU16(im.b, off+8)), int(zzU16(im.b, off+10))
		out = append(out, zzTreePage{pg, flags == 0x01, count, depth})
		if flags == 0x01 {
			for i := 0; i < count; i++ {
				walk(zzU64(im.b, off+16+i*16+8), depth+1)
			}
		} else if flags == 0x02 {
			for i := 0; i < count; i++ {
				e := off + 16 + i*16
				if zzU32(im.b, e)&1 != 0 {
					pos, ks := int(zzU32(im.b, e+4)), int(zzU32(im.b, e+8))
					if root := zzU64(im.b, e+pos+ks); root != 0 {
						walk(root, depth+1)
					}
				}
			}
		}
	}
	walk(im.m.root, 0)
	return out
}

func HarnessCorrupt() {
	c := zzConfig()
	path := zz.TempPath("corrupt.db")
	db := zzMustOpen(path, c, "corrupt")
	if zz.Param("setup", 2) == 5 {
		zzSetupDeep(db)
	} else {
		zzSetup(db, zz.Param("setup", 2))
	}
	_ = db.Update(func(tx *Tx) error { return tx.Bucket([]byte("b")).Delete([]byte("k06")) }) // leaves free pages
	zz.Assert(db.Close() == nil, "corrupt/close")
	b0 := zz.FileBytes(path)
	im0 := zzDecodeMode(b0, c.pageSize, true)
	zz.Assert(zzConsistent(im0), "corrupt/consistent-before")
	pages := zzTreePages(im0)
	ps := int64(c.pageSize)
	var ancestors func(target uint64) map[uint64]bool
	ancestors = func(target uint64) map[uint64]bool { // pages on the path from the root bucket to target (incl.)
		res := map[uint64]bool{}
		var walk func(pg uint64, path []uint64) bool
		walk = func(pg uint64, path []uint64) bool {
			path = append(path, pg)
			if pg == target {
				for _, p := range path {
					res[p] = true
				}
				return true
			}
			off := int(pg) * im0.ps
			flags, count := int(zzU16(b0, off+8)), int(zzU16(b0, off+10))
			if flags == 0x01 {
				for i := 0; i < count; i++ {
					if walk(zzU64(b0, off+16+i*16+8), path) {
						return true
					}
				}
			} else if flags == 0x02 {
				for i := 0; i < count; i++ {
					e := off + 16 + i*16
					if zzU32(b0, e)&1 != 0 {
						pos, ks := int(zzU32(b0, e+4)), int(zzU32(b0, e+8))
						if root := zzU64(b0, e+pos+ks); root != 0 && walk(root, path) {
							return true
						}
					}
				}
			}
			return false
		}
		walk(im0.m.root, nil)
		return res
	}
	typeTargetLeaf := false
	var classes []int
	cm := zz.Param("classes", 0x1f)
	for i := 0; i < 8; i++ {
		if cm&(1<<i) != 0 {
			classes = append(classes, i)
		}
	}
	switch classes[zz.Choose(len(classes))] {
	case 0:
		zz.Reach("branch-pointer-redirected")
		var branches []zzTreePage
		for _, p := range pages {
			if p.branch {
				branches = append(branches, p)
			}
		}
		if len(branches) == 0 {
			return
		}
		bp := branches[zz.Choose(len(branches))]
		ei := zz.Choose(bp.count)
		npg := zz.U64("newpgid")
		// the new target is a page that is already referenced from the tree (double reference + orphan);
		// free pages hold stale content of arbitrary shape and are outside the claim
		isTree := false
		for _, tp := range pages {
			isTree = zz.Or(isTree, npg == tp.id)
		}
		zz.Assume(isTree)
		for a := range ancestors(bp.id) { // no cycles: the check is not required to terminate on them
			zz.Assume(npg != a)
		}
		npg = zz.Concretize64(npg) // every feasible target page, one path each
		off := int64(bp.id)*ps + 16 + int64(ei)*16 + 8
		for i := int64(0); i < 8; i++ {
			zz.PokeFile(path, off+i, byte(npg>>(8*uint(i))))
		}
	case 1:
		zz.Reach("freelist-entry-changed")
		if !im0.hasFL || len(im0.free) == 0 {
			return
		}
		fi := zz.Choose(len(im0.free))
		nid := zz.U64("newfree")
		zz.Assume(nid >= 2 && nid < im0.m.hwm)
		nid = zz.Concretize64(nid)
		off := int64(im0.m.freelist)*ps + 16 + int64(fi)*8
		for i := int64(0); i < 8; i++ {
			zz.PokeFile(path, off+i, byte(nid>>(8*uint(i))))
		}
	case 2:
		zz.Reach("page-type-changed")
		tp := pages[zz.Choose(len(pages))]
		typeTargetLeaf = !tp.branch
		nf := zz.U16("newflags")
		zz.Assume(nf != 0x01 && nf != 0x02) // an invalid or foreign type, not a re-interpretation as the other tree page kind
		off := int64(tp.id)*ps + 8
		zz.PokeFile(path, off, byte(nf))
		zz.PokeFile(path, off+1, byte(nf>>8))
	case 3:
		zz.Reach("key-byte-changed")
		var leaves []zzTreePage
		for _, p := range pages {
			if p.count > 0 && (!p.branch || zz.Param("branchkeys", 0) == 1) {
				leaves = append(leaves, p)
			}
		}
		lp := leaves[zz.Choose(len(leaves))]
		ei := zz.Choose(lp.count)
		e := int(lp.id)*c.pageSize + 16 + ei*16
		pos, ksize := int(zzU32(b0, e+4)), int(zzU32(b0, e+8))
		if lp.branch {
			zz.Reach("branch-key-byte-changed")
			pos, ksize = int(zzU32(b0, e)), int(zzU32(b0, e+4))
		}
		nb := zz.U8("newkeybyte")
		kb := 0
		if ksize > 1 {
			kb = zz.Choose(2) * (ksize - 1) // first or last byte of the key (never beyond it)
		}
		zz.PokeFile(path, int64(e+pos+kb), nb)
	case 5:
		zz.Reach("overflow-count-changed")
		// the overflow count of a tree page is changed: a larger one makes the page cover its
		// neighbours (double reference, reachable-yet-free, or beyond the high-water mark), a smaller
		// one orphans its tail
		tp := pages[zz.Choose(len(pages))]
		off := int64(tp.id)*ps + 12
		oldov := uint32(zzU32(b0, int(off)))
		nov := zz.U32("newoverflow")
		zz.Assume(nov != oldov && nov <= oldov+3)
		nov = uint32(zz.Concretize64(uint64(nov)))
		for i := int64(0); i < 4; i++ {
			zz.PokeFile(path, off+i, byte(nov>>(8*uint(i))))
		}
	case 6:
		zz.Reach("high-water-mark-raised")
		// the high-water mark of the current meta is raised (checksum recomputed): the pages between the
		// old and the new mark are below the mark, unreachable and not free - incl. the very last page
		// below the mark, which no other class ever makes the corrupted one
		delta := uint64(1 + zz.Choose(2))
		if im0.cur < 0 || int64(im0.m.hwm+delta)*ps > int64(len(b0)) {
			return
		}
		mo := im0.cur*c.pageSize + 16
		mb := make([]byte, 64)
		copy(mb, b0[mo:mo+64])
		nh := im0.m.hwm + delta
		for i := 0; i < 8; i++ {
			mb[40+i] = byte(nh >> (8 * uint(i)))
		}
		sum := zzFNV64a(mb[:56])
		for i := 0; i < 8; i++ {
			mb[56+i] = byte(sum >> (8 * uint(i)))
		}
		for i := 40; i < 64; i++ {
			zz.PokeFile(path, int64(mo+i), mb[i])
		}
	case 4:
		zz.Reach("freelist-count-changed")
		if !im0.hasFL {
			return
		}
		nc := zz.U16("newcount")
		zz.Assume(int(nc) <= len(im0.free)+2 && nc != 0xFFFF)
		off := int64(im0.m.freelist)*ps + 10
		zz.PokeFile(path, off, byte(nc))
		zz.PokeFile(path, off+1, byte(nc>>8))
	}
	// verdict of the independent decoder on the corrupted image
	im1 := zzDecodeMode(zz.FileBytes(path), c.pageSize, true)
	consistent := zzConsistent(im1)
	// the real check (read-only open with the free list loaded, as the tool does)
	o := c.options()
	o.ReadOnly = true
	o.PreLoadFreelist = true
	rdb, err, p := zzOpenCatch(path, o)
	if p || err != nil {
		// a corruption that already stops Open counts as reported
		zz.Reach("open-refused")
		zz.Assert(!consistent, "corrupt/open-refuses-only-inconsistent-files")
		return
	}
	// known finding: a leaf page whose type field no longer says "leaf" is walked as a branch page by
	// the cursor inside Check (ForEachBucket): element fields are read as page ids -> wild pointer
	zz.KnownFaultRegion(typeTargetLeaf, "C19/check-crashes-on-leaf-page-with-foreign-type")
	n := 0
	panicked := zzCatch(func() {
		_ = rdb.View(func(tx *Tx) error {
			for range tx.Check() {
				n++
				if n > 200 {
					break
				}
			}
			return nil
		})
	})
	zz.Note(fmt.Sprintf("free0=%v flTotal=%d hwm=%d free1=%v errs1=%v consistent=%v n=%d panicked=%v memfree=%v", im0.free, im0.flTotal, im0.m.hwm, im1.free, im1.errs, consistent, n, panicked, zzFreeAndPending(rdb)))
	zz.KnownFaultRegion(false, "")
	metaListedFree := false
	for _, f := range im1.free {
		if f < 2 {
			metaListedFree = true
		}
	}
	reported := n > 0 || panicked
	if consistent {
		zz.Reach("benign-edit")
		zz.Assert(!reported, "corrupt/check-silent-on-consistent-image")
	} else {
		zz.Reach("corrupted")
		switch {
		case metaListedFree:
			zz.AssertUnless(reported, true, "corrupt/check-reports-structural-corruption", "C19/check-misses-meta-page-listed-free")
		default:
			zz.Assert(reported, "corrupt/check-reports-structural-corruption")
		}
	}
	_ = rdb.Close()
	zz.Reach("done")
}

// zzSetupDeep builds bucket "b" as a three-level tree (long keys keep the branch fan-out small).
func zzSetupDeep(db *DB) {
	err := db.Update(func(tx *Tx) error {
		b, err := tx.CreateBucket([]byte("b"))
		if err != nil {
			return err
		}
		for i := 0; i < 30; i++ {
			k := zzVal(db.pageSize*18/100, '.')
			k[0], k[1], k[2] = 'k', byte('0'+i/10), byte('0'+i%10)
			if err := b.Put(k, zzVal(db.pageSize/10, byte('a'+i%26))); err != nil {
				return err
			}
		}
		return nil
	})
	zz.Assert(err == nil, "setup-deep/update")
}

func zzCatch(f func()) (panicked bool) {
	defer func() {
		if r := recover(); r != nil {
			panicked = true
		}
	}()
	f()
	return false
}
