package main

// vos: the nondeterministic environment model (files, mmap, flock, durability, faults, clock).

import (
	"fmt"
	"go/types"
	"sort"
	"strings"

	"golang.org/x/tools/go/ssa"
)

const sectorSize = 512

type pendWrite struct {
	off  int64
	data []byte
	syms map[int64]*Node // relative offsets
	size int64           // file size after this operation
	kind string          // "write" | "truncate"
	seq  int
}

type VFile struct {
	name    string
	ino     int
	content *Obj
	size    int64
	// durability
	durable     []byte
	durableSyms map[int64]*Node
	durableSize int64
	pending     []pendWrite
	everSynced  bool
	// locks
	lockEx *OFD
	lockSh map[*OFD]bool
	views  []*Obj
	// crash image: unresolved sectors (sector index -> candidate versions, oldest first)
	unresolved map[int64][]secVersion
}

type secVersion struct {
	data []byte
	syms map[int64]*Node
}

type OFD struct {
	f      *VFile
	fd     int
	flags  int
	pos    int64
	closed bool
	path   string
	std    bool
}

type Event struct {
	Seq  int
	Kind string
	Path string
	Off  int64
	Len  int64
	Res  string
}

func (e Event) String() string {
	return fmt.Sprintf("#%d %s %s off=%d len=%d %s", e.Seq, e.Kind, e.Path, e.Off, e.Len, e.Res)
}

type VOS struct {
	r       *Run
	files   map[string]*VFile
	fds     map[int]*OFD
	nextFd  int
	nextIno int
	now     int64
	env     map[string]string
	events  []Event
	counts  map[string]int
	faultK  map[string]int // kind -> fail the k-th call (1-based)
	fired   map[string]bool
	anyKinds map[string]bool // "single fault anywhere" mode: kinds eligible
	anyFired bool
	anyArmed bool
	crashArmed bool
	crashed    bool
	protect    []protRange
	symTrunc   bool
	truncSizes []Int
}

type protRange struct {
	path     string
	off, end int64
	what     string
}

type crashSignal struct{}

func newVOS(r *Run) *VOS {
	return &VOS{r: r, files: map[string]*VFile{}, fds: map[int]*OFD{}, nextFd: 3, nextIno: 100, now: 1_000_000_000,
		env: map[string]string{}, counts: map[string]int{}, faultK: map[string]int{}, fired: map[string]bool{}}
}

func (v *VOS) event(kind, path string, off, n int64, res string) {
	e := Event{Seq: len(v.events) + 1, Kind: kind, Path: path, Off: off, Len: n, Res: res}
	v.events = append(v.events, e)
	if len(v.r.trace) < 4000 {
		v.r.trace = append(v.r.trace, e.String())
	}
}

// fault decides whether this call fails (consults armed faults).
func (v *VOS) fault(kind string) bool {
	v.counts[kind]++
	if k, ok := v.faultK[kind]; ok && k == v.counts[kind] && !v.fired[kind] {
		v.fired[kind] = true
		v.r.reach["fault:"+kind]++
		return true
	}
	if v.anyArmed && !v.anyFired && v.anyKinds[kind] {
		if v.r.choose(2, "i:fault:"+kind) == 1 {
			v.anyFired = true
			v.r.reach["fault:"+kind]++
			v.r.trace = append(v.r.trace, fmt.Sprintf("FAULT injected at %s #%d", kind, v.counts[kind]))
			return true
		}
	}
	return false
}

// crashPoint: before a mutating event, the machine may die.
func (v *VOS) crashPoint(kind string) {
	if v.crashArmed && !v.crashed {
		if v.r.choose(2, "i:crash:"+kind) == 1 {
			v.crashed = true
			v.r.trace = append(v.r.trace, fmt.Sprintf("CRASH before %s (event #%d)", kind, len(v.events)+1))
			panic(crashSignal{})
		}
	}
}

func (r *Run) errnoValue(e uint64) Value {
	return Iface{T: r.P.errnoT, V: mkInt(64, e)}
}

const (
	eNOENT = 2
	eIO    = 5
	eBADF  = 9
	eAGAIN = 11
	eNOMEM = 12
	eEXIST = 17
	eINVAL = 22
	eNOSPC = 28
)

func (v *VOS) newFile(name string) *VFile {
	v.nextIno++
	f := &VFile{name: name, ino: v.nextIno, lockSh: map[*OFD]bool{}}
	f.content = &Obj{ID: -v.nextIno, Size: 1 << 40, Tag: "file:" + name}
	v.files[name] = f
	return f
}

func (v *VOS) open(name string, flags int) (*OFD, uint64) {
	const (
		oWRONLY = 1
		oRDWR   = 2
		oCREATE = 0x40
		oEXCL   = 0x80
		oTRUNC  = 0x200
	)
	f := v.files[name]
	if f == nil {
		if flags&oCREATE == 0 {
			v.event("open", name, 0, 0, "ENOENT")
			return nil, eNOENT
		}
		f = v.newFile(name)
	} else if flags&oCREATE != 0 && flags&oEXCL != 0 {
		return nil, eEXIST
	}
	if v.fault("open") {
		v.event("open", name, 0, 0, "EIO(injected)")
		return nil, eIO
	}
	if flags&oTRUNC != 0 && flags&(oWRONLY|oRDWR) != 0 {
		v.truncate(f, 0)
	}
	ofd := &OFD{f: f, fd: v.nextFd, flags: flags, path: name}
	v.nextFd++
	v.fds[ofd.fd] = ofd
	v.event("open", name, int64(flags), 0, fmt.Sprintf("fd=%d", ofd.fd))
	return ofd, 0
}

func (v *VOS) writable(o *OFD) bool { return o.flags&3 != 0 }

func (v *VOS) truncate(f *VFile, size int64) {
	if size < f.size {
		// drop bytes
		c := f.content
		if int64(len(c.B)) > size {
			for i := size; i < int64(len(c.B)); i++ {
				c.B[i] = 0
			}
		}
		c.clearSyms(size, f.size-size)
	}
	f.size = size
	f.pending = append(f.pending, pendWrite{kind: "truncate", size: size, seq: len(v.events)})
}

func (v *VOS) pwrite(o *OFD, src Slice, off int64) {
	r := v.r
	f := o.f
	n := src.Len
	if n == 0 {
		return
	}
	// crash-image sectors: fully overwritten ones need no resolution, partially overwritten ones do
	if len(f.unresolved) != 0 {
		for s := off / sectorSize; s <= (off+n-1)/sectorSize; s++ {
			if s*sectorSize >= off && (s+1)*sectorSize <= off+n {
				delete(f.unresolved, s)
			}
		}
		r.vosTouch(f, off, n)
	}
	c := f.content
	so := r.access(src.O, src.Off, n, false)
	c.ensure(off + n)
	copy(c.B[off:off+n], paddedBytes(so, src.Off, n))
	c.clearSyms(off, n)
	var syms map[int64]*Node
	if len(so.S) != 0 {
		for i := int64(0); i < n; i++ {
			if nd, ok := so.S[src.Off+i]; ok {
				if c.S == nil {
					c.S = make(map[int64]*Node)
				}
				c.S[off+i] = nd
				if syms == nil {
					syms = make(map[int64]*Node)
				}
				syms[i] = nd
			}
		}
	}
	if off+n > f.size {
		f.size = off + n
	}
	data := make([]byte, n)
	copy(data, c.B[off:off+n])
	f.pending = append(f.pending, pendWrite{kind: "write", off: off, data: data, syms: syms, size: f.size, seq: len(v.events)})
	// protected ranges (C06-style obligations)
	for _, p := range v.protect {
		if p.path == f.name && off < p.end && off+n > p.off {
			r.recordCex("assert", "vos/protected-range-written", fmt.Sprintf("write [%d,%d) overlaps protected %s [%d,%d)", off, off+n, p.what, p.off, p.end), r.model, nil)
		}
	}
}

func paddedBytes(o *Obj, off, n int64) []byte {
	if off+n <= int64(len(o.B)) {
		return o.B[off : off+n]
	}
	b := make([]byte, n)
	if off < int64(len(o.B)) {
		copy(b, o.B[off:])
	}
	return b
}

func (v *VOS) syncFile(f *VFile) {
	c := f.content
	f.durable = make([]byte, f.size)
	copy(f.durable, paddedBytes(c, 0, f.size))
	f.durableSyms = nil
	if len(c.S) != 0 {
		f.durableSyms = make(map[int64]*Node, len(c.S))
		for k, nd := range c.S {
			f.durableSyms[k] = nd
		}
	}
	f.durableSize = f.size
	f.pending = nil
	f.everSynced = true
}

// vosTouch resolves unresolved crash-image sectors covering [off, off+n) by forking.
func (r *Run) vosTouch(f *VFile, off, n int64) {
	if len(f.unresolved) == 0 {
		return
	}
	for s := off / sectorSize; s <= (off+n-1)/sectorSize; s++ {
		vs, ok := f.unresolved[s]
		if !ok {
			continue
		}
		delete(f.unresolved, s)
		k := r.choose(len(vs), "i:sector")
		ver := vs[k]
		c := f.content
		base := s * sectorSize
		c.ensure(base + int64(len(ver.data)))
		copy(c.B[base:], ver.data)
		c.clearSyms(base, int64(len(ver.data)))
		for o, nd := range ver.syms {
			if c.S == nil {
				c.S = make(map[int64]*Node)
			}
			c.S[base+o] = nd
		}
		r.trace = append(r.trace, fmt.Sprintf("crash-image: sector %d of %s resolved to version %d/%d", s, f.name, k, len(vs)))
		r.reach["sector-split"]++
		if k > 0 {
			r.reach["unsynced-sector-survived"]++
		}
	}
}

// crashImage builds, in place, the post-crash state of every file: durable content plus an
// unresolved choice per sector touched by unsynced writes.
func (v *VOS) crashImage() {
	for _, f := range v.files {
		cur := f.content
		// candidate versions per sector: durable first, then the content after each pending write
		type img struct {
			b []byte
			s map[int64]*Node
		}
		size := f.durableSize
		base := img{b: append([]byte{}, f.durable...), s: f.durableSyms}
		f.unresolved = map[int64][]secVersion{}
		// replay pending writes over a scratch image, recording per-sector versions
		scratch := append([]byte{}, base.b...)
		ssyms := map[int64]*Node{}
		for k, nd := range base.s {
			ssyms[k] = nd
		}
		secVer := func(s int64) secVersion {
			lo := s * sectorSize
			d := make([]byte, sectorSize)
			if lo < int64(len(scratch)) {
				copy(d, scratch[lo:])
			}
			var sy map[int64]*Node
			for i := int64(0); i < sectorSize; i++ {
				if nd, ok := ssyms[lo+i]; ok {
					if sy == nil {
						sy = map[int64]*Node{}
					}
					sy[i] = nd
				}
			}
			return secVersion{d, sy}
		}
		touched := map[int64]bool{}
		maxSize := size
		for _, pw := range f.pending {
			if pw.kind == "truncate" {
				// metadata: model file length changes as surviving iff later (we keep the largest size reached,
				// zero-filled, which is what ext4/xfs expose after replay of a size-extending truncate+fsync;
				// un-synced truncates may or may not survive: the shorter length only matters for reads beyond it)
				if pw.size > maxSize {
					maxSize = pw.size
				}
				continue
			}
			end := pw.off + int64(len(pw.data))
			if end > maxSize {
				maxSize = end
			}
			for s := pw.off / sectorSize; s <= (end-1)/sectorSize; s++ {
				if !touched[s] {
					touched[s] = true
					f.unresolved[s] = []secVersion{secVer(s)}
				}
			}
			if int64(len(scratch)) < end {
				scratch = append(scratch, make([]byte, end-int64(len(scratch)))...)
			}
			copy(scratch[pw.off:end], pw.data)
			for i := int64(0); i < int64(len(pw.data)); i++ {
				delete(ssyms, pw.off+i)
			}
			for o, nd := range pw.syms {
				ssyms[pw.off+o] = nd
			}
			for s := pw.off / sectorSize; s <= (end-1)/sectorSize; s++ {
				nv := secVer(s)
				vs := f.unresolved[s]
				last := vs[len(vs)-1]
				if string(last.data) != string(nv.data) || len(last.syms) != 0 || len(nv.syms) != 0 {
					f.unresolved[s] = append(vs, nv)
				}
			}
		}
		for s, vs := range f.unresolved {
			if len(vs) < 2 {
				delete(f.unresolved, s)
			}
		}
		// install durable image as current content
		for i := range cur.B {
			cur.B[i] = 0
		}
		cur.S = nil
		cur.ensure(int64(len(base.b)))
		copy(cur.B, base.b)
		for k, nd := range base.s {
			if cur.S == nil {
				cur.S = map[int64]*Node{}
			}
			cur.S[k] = nd
		}
		f.size = maxSize
		f.pending = nil
		f.durableSize = maxSize
		// locks and views die with the process
		f.lockEx = nil
		f.lockSh = map[*OFD]bool{}
		for _, vw := range f.views {
			vw.Dead = true
		}
		f.views = nil
	}
	for _, o := range v.fds {
		o.closed = true
	}
	v.fds = map[int]*OFD{}
	v.crashArmed = false
	v.crashed = false
	v.anyArmed = false
	v.faultK = map[string]int{}
	// a crashed process leaves no mutexes held
	v.r.locks = map[lockKey]*lockState{}
}

func (r *Run) fileOf(v Value) *OFD {
	p := v.(Ptr)
	if p.O == nil {
		r.goPanicStr("runtime error: invalid memory address or nil pointer dereference (nil *os.File)")
	}
	o, _ := p.O.Ext.(*OFD)
	if o == nil {
		unsupported("*os.File without vos descriptor")
	}
	return o
}

func (r *Run) newFileValue(fn *ssa.Function, o *OFD) Value {
	ft := r.P.osFileT
	obj := r.newObj(sizeof(ft), "os.File:"+o.path)
	obj.Ext = o
	return Ptr{O: obj}
}

func (r *Run) fileInfo(f *VFile) Value {
	P := r.P
	t := P.fileStatT
	o := r.newObj(sizeof(t), "os.fileStat")
	st := t.Underlying().(*types.Struct)
	offs := fieldOffsets(t)
	for i := 0; i < st.NumFields(); i++ {
		switch st.Field(i).Name() {
		case "name":
			r.store(o, offs[i], st.Field(i).Type(), Str{S: f.name})
		case "size":
			r.store(o, offs[i], st.Field(i).Type(), mkInt(64, uint64(f.size)))
		case "mode":
			r.store(o, offs[i], st.Field(i).Type(), mkInt(32, 0o644))
		case "sys":
			// syscall.Stat_t: Dev (0), Ino (8) identify the file for os.SameFile
			r.storeInt(o, offs[i]+0, mkInt(64, 1))
			r.storeInt(o, offs[i]+8, mkInt(64, uint64(f.ino)))
		}
	}
	return Iface{T: types.NewPointer(t), V: Ptr{O: o}}
}

func init() {
	I := intrinsics
	nilErr := Iface{}
	I["os.OpenFile"] = func(fr *frame, fn *ssa.Function, args []Value) Value {
		r := fr.r
		name := argStr(args[0])
		flags := int(r.concInt(args[1], "open-flags"))
		o, e := r.vos.open(name, flags)
		if e != 0 {
			return Tuple{Ptr{}, r.errnoValue(e)}
		}
		return Tuple{r.newFileValue(fn, o), nilErr}
	}
	I["os.Open"] = func(fr *frame, fn *ssa.Function, args []Value) Value {
		r := fr.r
		o, e := r.vos.open(argStr(args[0]), 0)
		if e != 0 {
			return Tuple{Ptr{}, r.errnoValue(e)}
		}
		return Tuple{r.newFileValue(fn, o), nilErr}
	}
	I["os.Create"] = func(fr *frame, fn *ssa.Function, args []Value) Value {
		r := fr.r
		o, e := r.vos.open(argStr(args[0]), 2|0x40|0x200)
		if e != 0 {
			return Tuple{Ptr{}, r.errnoValue(e)}
		}
		return Tuple{r.newFileValue(fn, o), nilErr}
	}
	I["os.Stat"] = func(fr *frame, fn *ssa.Function, args []Value) Value {
		r := fr.r
		f := r.vos.files[argStr(args[0])]
		if f == nil {
			return Tuple{Iface{}, r.notExistErr()}
		}
		return Tuple{r.fileInfo(f), nilErr}
	}
	I["os.Remove"] = func(fr *frame, fn *ssa.Function, args []Value) Value {
		r := fr.r
		name := argStr(args[0])
		if r.vos.files[name] == nil {
			return r.notExistErr()
		}
		delete(r.vos.files, name)
		r.vos.event("unlink", name, 0, 0, "ok")
		return nilErr
	}
	I["os.IsNotExist"] = func(fr *frame, fn *ssa.Function, args []Value) Value {
		e := args[0].(Iface)
		if e.T == nil {
			return mkBool(false)
		}
		if iv, ok := e.V.(Int); ok && types.Identical(e.T, fr.r.P.errnoT) {
			return mkBool(iv.C == eNOENT)
		}
		return mkBool(false)
	}
	I["os.SameFile"] = func(fr *frame, fn *ssa.Function, args []Value) Value {
		r := fr.r
		ino := func(v Value) uint64 {
			p := v.(Iface).V.(Ptr)
			t := r.P.fileStatT
			st := t.Underlying().(*types.Struct)
			offs := fieldOffsets(t)
			for i := 0; i < st.NumFields(); i++ {
				if st.Field(i).Name() == "sys" {
					return r.loadInt(p.O, p.Off+offs[i]+8, 64).C
				}
			}
			return 0
		}
		return mkBool(ino(args[0]) == ino(args[1]))
	}
	I["(*os.File).Name"] = func(fr *frame, fn *ssa.Function, args []Value) Value {
		return Str{S: fr.r.fileOf(args[0]).path}
	}
	I["(*os.File).Fd"] = func(fr *frame, fn *ssa.Function, args []Value) Value {
		return mkInt(64, uint64(fr.r.fileOf(args[0]).fd))
	}
	I["(*os.File).Stat"] = func(fr *frame, fn *ssa.Function, args []Value) Value {
		r := fr.r
		o := r.fileOf(args[0])
		if o.closed {
			return Tuple{Iface{}, r.errnoValue(eBADF)}
		}
		if r.vos.fault("stat") {
			return Tuple{Iface{}, r.errnoValue(eIO)}
		}
		return Tuple{r.fileInfo(o.f), nilErr}
	}
	I["(*os.File).Close"] = func(fr *frame, fn *ssa.Function, args []Value) Value {
		r := fr.r
		o := r.fileOf(args[0])
		if o.closed {
			return r.errnoValue(eBADF)
		}
		o.closed = true
		delete(r.vos.fds, o.fd)
		if o.f.lockEx == o {
			o.f.lockEx = nil
		}
		delete(o.f.lockSh, o)
		r.vos.event("close", o.path, 0, 0, "ok")
		return nilErr
	}
	I["(*os.File).WriteAt"] = func(fr *frame, fn *ssa.Function, args []Value) Value {
		r := fr.r
		o := r.fileOf(args[0])
		b := args[1].(Slice)
		off := int64(r.concInt(args[2], "pwrite-off"))
		if o.std {
			return Tuple{mkInt(64, uint64(b.Len)), nilErr}
		}
		if o.closed || !r.vos.writable(o) {
			r.vos.event("pwrite", o.path, off, b.Len, "EBADF")
			return Tuple{mkInt(64, 0), r.errnoValue(eBADF)}
		}
		r.vos.crashPoint("pwrite")
		if r.vos.fault("write") {
			r.vos.event("pwrite", o.path, off, b.Len, "EIO(injected)")
			return Tuple{mkInt(64, 0), r.errnoValue(eIO)}
		}
		r.vos.pwrite(o, b, off)
		r.vos.event("pwrite", o.path, off, b.Len, "ok")
		return Tuple{mkInt(64, uint64(b.Len)), nilErr}
	}
	I["(*os.File).Write"] = func(fr *frame, fn *ssa.Function, args []Value) Value {
		r := fr.r
		o := r.fileOf(args[0])
		b := args[1].(Slice)
		if o.std {
			return Tuple{mkInt(64, uint64(b.Len)), nilErr}
		}
		if o.closed || !r.vos.writable(o) {
			return Tuple{mkInt(64, 0), r.errnoValue(eBADF)}
		}
		r.vos.crashPoint("write")
		if r.vos.fault("write") {
			r.vos.event("write", o.path, o.pos, b.Len, "EIO(injected)")
			return Tuple{mkInt(64, 0), r.errnoValue(eIO)}
		}
		r.vos.pwrite(o, b, o.pos)
		r.vos.event("write", o.path, o.pos, b.Len, "ok")
		o.pos += b.Len
		return Tuple{mkInt(64, uint64(b.Len)), nilErr}
	}
	readAt := func(r *Run, o *OFD, b Slice, off int64) (int64, Value) {
		f := o.f
		if o.closed {
			return 0, r.errnoValue(eBADF)
		}
		if r.vos.fault("read") {
			return 0, r.errnoValue(eIO)
		}
		n := b.Len
		if off >= f.size {
			n = 0
		} else if off+n > f.size {
			n = f.size - off
		}
		if n > 0 {
			r.vosTouch(f, off, n)
			r.memmove(b.O, b.Off, f.content, off, n)
		}
		r.vos.event("pread", o.path, off, b.Len, fmt.Sprintf("n=%d", n))
		if n < b.Len {
			return n, r.load(r.global(r.P.ioEOF), 0, errorType)
		}
		return n, nilErr
	}
	I["(*os.File).ReadAt"] = func(fr *frame, fn *ssa.Function, args []Value) Value {
		r := fr.r
		o := r.fileOf(args[0])
		n, err := readAt(r, o, args[1].(Slice), int64(r.concInt(args[2], "pread-off")))
		return Tuple{mkInt(64, uint64(n)), err}
	}
	I["(*os.File).Read"] = func(fr *frame, fn *ssa.Function, args []Value) Value {
		r := fr.r
		o := r.fileOf(args[0])
		b := args[1].(Slice)
		n, err := readAt(r, o, b, o.pos)
		o.pos += n
		if n > 0 {
			err = nilErr
		}
		return Tuple{mkInt(64, uint64(n)), err}
	}
	// generic copy loop standing in for the sendfile/splice fast paths
	I["(*os.File).ReadFrom"] = func(fr *frame, fn *ssa.Function, args []Value) Value {
		r := fr.r
		o := r.fileOf(args[0])
		src := args[1].(Iface)
		buf := r.newObj(32*1024, "ReadFrom-buf")
		total := int64(0)
		for {
			res, ok := r.callMethodIfAny(fr, src, "Read", Slice{O: buf, Len: 32 * 1024, Cap: 32 * 1024})
			if !ok {
				unsupported("ReadFrom: source has no Read")
			}
			t := res.(Tuple)
			n := int64(r.concInt(t[0], "read-n"))
			if n > 0 {
				if o.std {
					total += n
				} else {
					if o.closed || !r.vos.writable(o) {
						return Tuple{mkInt(64, uint64(total)), r.errnoValue(eBADF)}
					}
					r.vos.crashPoint("write")
					if r.vos.fault("write") {
						r.vos.event("write", o.path, o.pos, n, "EIO(injected)")
						return Tuple{mkInt(64, uint64(total)), r.errnoValue(eIO)}
					}
					r.vos.pwrite(o, Slice{O: buf, Len: n, Cap: n}, o.pos)
					r.vos.event("write", o.path, o.pos, n, "ok")
					o.pos += n
					total += n
				}
			}
			if e := t[1].(Iface); e.T != nil {
				eof := r.load(r.global(r.P.ioEOF), 0, errorType).(Iface)
				if vv := r.valEq(errorType, e, eof); vv.N == nil && vv.C != 0 {
					return Tuple{mkInt(64, uint64(total)), nilErr}
				}
				return Tuple{mkInt(64, uint64(total)), e}
			}
			if n == 0 {
				return Tuple{mkInt(64, uint64(total)), nilErr}
			}
		}
	}
	I["os.Rename"] = func(fr *frame, fn *ssa.Function, args []Value) Value {
		r := fr.r
		from, to := argStr(args[0]), argStr(args[1])
		f := r.vos.files[from]
		if f == nil {
			return r.notExistErr()
		}
		delete(r.vos.files, from)
		f.name = to
		r.vos.files[to] = f
		r.vos.event("rename", from, 0, 0, "ok -> "+to)
		return nilErr
	}
	I["(*os.File).Seek"] = func(fr *frame, fn *ssa.Function, args []Value) Value {
		r := fr.r
		o := r.fileOf(args[0])
		off := int64(r.concInt(args[1], "seek-off"))
		switch r.concInt(args[2], "seek-whence") {
		case 0:
			o.pos = off
		case 1:
			o.pos += off
		case 2:
			o.pos = o.f.size + off
		}
		return Tuple{mkInt(64, uint64(o.pos)), nilErr}
	}
	I["(*os.File).Truncate"] = func(fr *frame, fn *ssa.Function, args []Value) Value {
		r := fr.r
		o := r.fileOf(args[0])
		if iv, ok := args[1].(Int); ok && iv.N != nil && r.vos.symTrunc {
			// kernel harnesses: a symbolic length is recorded, the file is left alone
			r.vos.truncSizes = append(r.vos.truncSizes, iv)
			r.vos.event("ftruncate", o.path, -1, 0, "ok(symbolic length recorded)")
			return nilErr
		}
		sz := int64(r.concInt(args[1], "truncate-size"))
		if r.vos.symTrunc {
			r.vos.truncSizes = append(r.vos.truncSizes, mkInt(64, uint64(sz)))
		}
		if o.closed || !r.vos.writable(o) {
			return r.errnoValue(eBADF)
		}
		r.vos.crashPoint("ftruncate")
		if r.vos.fault("truncate") {
			r.vos.event("ftruncate", o.path, sz, 0, "ENOSPC(injected)")
			return r.errnoValue(eNOSPC)
		}
		r.vos.truncate(o.f, sz)
		r.vos.event("ftruncate", o.path, sz, 0, "ok")
		return nilErr
	}
	fsync := func(kind string) intrinsicFn {
		return func(fr *frame, fn *ssa.Function, args []Value) Value {
			r := fr.r
			var o *OFD
			if kind == "fdatasync" {
				o = r.vos.fds[int(r.concInt(args[0], "fd"))]
				if o == nil {
					return r.errnoValue(eBADF)
				}
			} else {
				o = r.fileOf(args[0])
			}
			if o.closed {
				return r.errnoValue(eBADF)
			}
			r.vos.crashPoint(kind)
			if r.vos.fault("sync") {
				r.vos.event(kind, o.path, 0, 0, "EIO(injected)")
				return r.errnoValue(eIO)
			}
			r.vos.syncFile(o.f)
			r.vos.event(kind, o.path, 0, 0, "ok")
			return nilErr
		}
	}
	I["(*os.File).Sync"] = fsync("fsync")
	I["syscall.Fdatasync"] = fsync("fdatasync")
	I["syscall.Fsync"] = fsync("fdatasync")
	I["syscall.Flock"] = func(fr *frame, fn *ssa.Function, args []Value) Value {
		r := fr.r
		o := r.vos.fds[int(r.concInt(args[0], "fd"))]
		how := int(r.concInt(args[1], "flock-how"))
		if o == nil || o.closed {
			return r.errnoValue(eBADF)
		}
		const (
			lockSH = 1
			lockEX = 2
			lockNB = 4
			lockUN = 8
		)
		f := o.f
		res := "ok"
		defer func() { r.vos.event("flock", o.path, int64(how), 0, res) }()
		switch {
		case how&lockUN != 0:
			if f.lockEx == o {
				f.lockEx = nil
			}
			delete(f.lockSh, o)
			return nilErr
		case how&lockEX != 0:
			if r.vos.fault("flock") {
				res = "EIO(injected)"
				return r.errnoValue(eIO)
			}
			others := false
			if f.lockEx != nil && f.lockEx != o {
				others = true
			}
			for s := range f.lockSh {
				if s != o {
					others = true
				}
			}
			if others {
				if how&lockNB == 0 {
					unsupported("blocking flock")
				}
				res = "EWOULDBLOCK"
				return r.errnoValue(eAGAIN)
			}
			delete(f.lockSh, o)
			f.lockEx = o
			return nilErr
		case how&lockSH != 0:
			if r.vos.fault("flock") {
				res = "EIO(injected)"
				return r.errnoValue(eIO)
			}
			if f.lockEx != nil && f.lockEx != o {
				if how&lockNB == 0 {
					unsupported("blocking flock")
				}
				res = "EWOULDBLOCK"
				return r.errnoValue(eAGAIN)
			}
			if f.lockEx == o {
				f.lockEx = nil
			}
			f.lockSh[o] = true
			return nilErr
		}
		return r.errnoValue(eINVAL)
	}
	I["golang.org/x/sys/unix.Mmap"] = func(fr *frame, fn *ssa.Function, args []Value) Value {
		r := fr.r
		o := r.vos.fds[int(r.concInt(args[0], "fd"))]
		off := int64(r.concInt(args[1], "mmap-off"))
		length := int64(r.concInt(args[2], "mmap-len"))
		prot := int(r.concInt(args[3], "mmap-prot"))
		flags := int(r.concInt(args[4], "mmap-flags"))
		if o == nil || o.closed {
			return Tuple{Slice{}, r.errnoValue(eBADF)}
		}
		if length <= 0 || off != 0 {
			return Tuple{Slice{}, r.errnoValue(eINVAL)}
		}
		if r.vos.fault("mmap") {
			r.vos.event("mmap", o.path, off, length, "ENOMEM(injected)")
			return Tuple{Slice{}, r.errnoValue(eNOMEM)}
		}
		if prot&2 != 0 && !r.vos.writable(o) {
			return Tuple{Slice{}, r.errnoValue(13)}
		}
		view := &Obj{ID: r.nextObj + 1, Size: length, Alias: o.f.content, File: o.f, RO: prot&2 == 0, Tag: fmt.Sprintf("mmap:%s:%d", o.path, length)}
		r.nextObj++
		view.Ext = mmapInfo{prot: prot, flags: flags}
		o.f.views = append(o.f.views, view)
		r.vos.event("mmap", o.path, int64(prot), length, fmt.Sprintf("prot=%d flags=%d", prot, flags))
		return Tuple{Slice{O: view, Len: length, Cap: length}, nilErr}
	}
	I["golang.org/x/sys/unix.Munmap"] = func(fr *frame, fn *ssa.Function, args []Value) Value {
		r := fr.r
		s := args[0].(Slice)
		if s.O == nil || s.O.Alias == nil {
			return r.errnoValue(eINVAL)
		}
		if r.vos.fault("munmap") {
			r.vos.event("munmap", s.O.File.name, 0, s.Len, "EINVAL(injected)")
			return r.errnoValue(eINVAL)
		}
		s.O.Dead = true
		r.vos.event("munmap", s.O.File.name, 0, s.Len, "ok")
		return nilErr
	}
	I["golang.org/x/sys/unix.Madvise"] = func(fr *frame, fn *ssa.Function, args []Value) Value { return nilErr }
	I["golang.org/x/sys/unix.Mlock"] = func(fr *frame, fn *ssa.Function, args []Value) Value {
		if fr.r.vos.fault("mlock") {
			return fr.r.errnoValue(eNOMEM)
		}
		return nilErr
	}
	I["golang.org/x/sys/unix.Munlock"] = func(fr *frame, fn *ssa.Function, args []Value) Value { return nilErr }

	// ---------- harness-facing environment API ----------
	I[zz+"TempPath"] = func(fr *frame, fn *ssa.Function, args []Value) Value {
		return Str{S: "/vos/" + argStr(args[0])}
	}
	I[zz+"FaultArm"] = func(fr *frame, fn *ssa.Function, args []Value) Value {
		k := int(fr.r.concInt(args[1], "fault-k"))
		kind := argStr(args[0])
		fr.r.vos.faultK[kind] = fr.r.vos.counts[kind] + k
		delete(fr.r.vos.fired, kind)
		return nil
	}
	I[zz+"FaultAnyOnce"] = func(fr *frame, fn *ssa.Function, args []Value) Value {
		v := fr.r.vos
		v.anyArmed = true
		v.anyFired = false
		v.anyKinds = map[string]bool{}
		for _, k := range strings.Split(argStr(args[0]), ",") {
			v.anyKinds[strings.TrimSpace(k)] = true
		}
		return nil
	}
	I[zz+"FaultDisarm"] = func(fr *frame, fn *ssa.Function, args []Value) Value {
		v := fr.r.vos
		v.anyArmed = false
		v.faultK = map[string]int{}
		return nil
	}
	I[zz+"FaultFired"] = func(fr *frame, fn *ssa.Function, args []Value) Value {
		v := fr.r.vos
		f := v.anyFired
		for _, b := range v.fired {
			f = f || b
		}
		return mkBool(f)
	}
	// LastFault() (kind string, eventIndex int): the injected fault of this run (eventIndex -1 if none)
	I[zz+"LastFault"] = func(fr *frame, fn *ssa.Function, args []Value) Value {
		v := fr.r.vos
		for i := len(v.events) - 1; i >= 0; i-- {
			if strings.Contains(v.events[i].Res, "injected") {
				return Tuple{Str{S: v.events[i].Kind}, mkInt(64, uint64(i))}
			}
		}
		return Tuple{Str{}, mkInt(64, ^uint64(0))}
	}
	I[zz+"IOCount"] = func(fr *frame, fn *ssa.Function, args []Value) Value {
		return mkInt(64, uint64(fr.r.vos.counts[argStr(args[0])]))
	}
	I[zz+"FileSize"] = func(fr *frame, fn *ssa.Function, args []Value) Value {
		f := fr.r.vos.files[argStr(args[0])]
		if f == nil {
			return mkInt(64, ^uint64(0))
		}
		return mkInt(64, uint64(f.size))
	}
	I[zz+"FileBytes"] = func(fr *frame, fn *ssa.Function, args []Value) Value {
		r := fr.r
		f := r.vos.files[argStr(args[0])]
		if f == nil {
			return Slice{}
		}
		o := r.newObj(f.size, "FileBytes")
		if f.size > 0 {
			r.vosTouch(f, 0, f.size)
			r.memmove(o, 0, f.content, 0, f.size)
		}
		return Slice{O: o, Len: f.size, Cap: f.size}
	}
	// FileView(path): a read-only window onto the file's bytes (lazy: crash-image sectors are
	// resolved only when actually read)
	I[zz+"FileView"] = func(fr *frame, fn *ssa.Function, args []Value) Value {
		r := fr.r
		f := r.vos.files[argStr(args[0])]
		if f == nil {
			return Slice{}
		}
		r.nextObj++
		view := &Obj{ID: r.nextObj, Size: f.size, Alias: f.content, File: f, RO: true, Tag: "fileview:" + f.name}
		return Slice{O: view, Len: f.size, Cap: f.size}
	}
	I[zz+"WriteFileBytes"] = func(fr *frame, fn *ssa.Function, args []Value) Value {
		r := fr.r
		name := argStr(args[0])
		b := args[1].(Slice)
		f := r.vos.files[name]
		if f == nil {
			f = r.vos.newFile(name)
		}
		f.size = b.Len
		f.content.S = nil
		for i := range f.content.B {
			f.content.B[i] = 0
		}
		if b.Len > 0 {
			f.content.ensure(b.Len)
			r.memmove(f.content, 0, b.O, b.Off, b.Len)
		}
		r.vos.syncFile(f)
		return nil
	}
	I[zz+"PokeFile"] = func(fr *frame, fn *ssa.Function, args []Value) Value {
		// PokeFile(path, off, byte): damage one byte at rest (durable).
		r := fr.r
		f := r.vos.files[argStr(args[0])]
		off := int64(r.concInt(args[1], "poke-off"))
		if f == nil || off >= f.size {
			unsupported("PokeFile outside file")
		}
		f.content.ensure(off + 1)
		r.storeInt(f.content, off, args[2].(Int))
		r.vos.syncFile(f)
		return nil
	}
	I[zz+"PokeDelete"] = func(fr *frame, fn *ssa.Function, args []Value) Value {
		delete(fr.r.vos.files, argStr(args[0]))
		return nil
	}
	I[zz+"PeekFile"] = func(fr *frame, fn *ssa.Function, args []Value) Value {
		r := fr.r
		f := r.vos.files[argStr(args[0])]
		off := int64(r.concInt(args[1], "peek-off"))
		if f == nil || off >= f.size {
			return mkInt(8, 0)
		}
		r.vosTouch(f, off, 1)
		return r.loadInt(f.content, off, 8)
	}
	I[zz+"SymbolicTruncate"] = func(fr *frame, fn *ssa.Function, args []Value) Value {
		fr.r.vos.symTrunc = args[0].(Int).C != 0
		fr.r.vos.truncSizes = nil
		return nil
	}
	// LastTruncate() (size int64, any bool)
	I[zz+"LastTruncate"] = func(fr *frame, fn *ssa.Function, args []Value) Value {
		ts := fr.r.vos.truncSizes
		if len(ts) == 0 {
			return Tuple{mkInt(64, 0), mkBool(false)}
		}
		return Tuple{ts[len(ts)-1], mkBool(true)}
	}
	I[zz+"CrashArm"] = func(fr *frame, fn *ssa.Function, args []Value) Value {
		fr.r.vos.crashArmed = true
		return nil
	}
	I[zz+"CrashDisarm"] = func(fr *frame, fn *ssa.Function, args []Value) Value {
		fr.r.vos.crashArmed = false
		return nil
	}
	// RunUntilCrash(f func()) bool: runs f; returns true if the machine died inside it.
	I[zz+"RunUntilCrash"] = func(fr *frame, fn *ssa.Function, args []Value) (res Value) {
		r := fr.r
		depth := fr.g.depth
		crashed := false
		r.vos.crashArmed = true
		func() {
			defer func() {
				if p := recover(); p != nil {
					if _, ok := p.(crashSignal); ok {
						crashed = true
						fr.g.depth = depth
						fr.g.top = fr.caller
						return
					}
					panic(p)
				}
			}()
			r.call(fr, args[0], nil, fr.pos)
			// also allow dying right after the last event
			r.vos.crashPoint("end")
		}()
		r.vos.crashArmed = false
		if crashed {
			r.vos.crashImage()
			r.reach["crashed"]++
		}
		return mkBool(crashed)
	}
	I[zz+"EventCount"] = func(fr *frame, fn *ssa.Function, args []Value) Value {
		return mkInt(64, uint64(len(fr.r.vos.events)))
	}
	// Event(i) (kind string, path string, off int64, n int64, ok bool)
	I[zz+"Event"] = func(fr *frame, fn *ssa.Function, args []Value) Value {
		i := int(fr.r.concInt(args[0], "event-i"))
		e := fr.r.vos.events[i]
		return Tuple{Str{S: e.Kind}, Str{S: e.Path}, mkInt(64, uint64(e.Off)), mkInt(64, uint64(e.Len)), mkBool(e.Res == "ok" || !strings.Contains(e.Res, "injected") && !strings.HasPrefix(e.Res, "E"))}
	}
	I[zz+"Protect"] = func(fr *frame, fn *ssa.Function, args []Value) Value {
		r := fr.r
		off := int64(r.concInt(args[1], "protect-off"))
		n := int64(r.concInt(args[2], "protect-len"))
		r.vos.protect = append(r.vos.protect, protRange{argStr(args[0]), off, off + n, argStr(args[3])})
		return nil
	}
	I[zz+"ProtectClear"] = func(fr *frame, fn *ssa.Function, args []Value) Value {
		fr.r.vos.protect = nil
		return nil
	}
	I[zz+"LockHolders"] = func(fr *frame, fn *ssa.Function, args []Value) Value {
		f := fr.r.vos.files[argStr(args[0])]
		if f == nil {
			return Tuple{mkInt(64, 0), mkInt(64, 0)}
		}
		ex := 0
		if f.lockEx != nil {
			ex = 1
		}
		return Tuple{mkInt(64, uint64(ex)), mkInt(64, uint64(len(f.lockSh)))}
	}
	I[zz+"ClockAdvance"] = func(fr *frame, fn *ssa.Function, args []Value) Value {
		fr.r.vos.now += int64(fr.r.concInt(args[0], "clock"))
		return nil
	}
	I[zz+"ClockNow"] = func(fr *frame, fn *ssa.Function, args []Value) Value {
		return mkInt(64, uint64(fr.r.vos.now))
	}
	I[zz+"Setenv"] = func(fr *frame, fn *ssa.Function, args []Value) Value {
		fr.r.vos.env[argStr(args[0])] = argStr(args[1])
		return nil
	}
	I[zz+"IsReadOnlyMem"] = func(fr *frame, fn *ssa.Function, args []Value) Value {
		s := args[0].(Slice)
		return mkBool(s.O != nil && s.O.RO)
	}
	// TryStore(b []byte, i int, v byte) bool: attempts b[i] = v; false if the store faults (PROT_READ).
	I[zz+"TryStore"] = func(fr *frame, fn *ssa.Function, args []Value) (res Value) {
		r := fr.r
		s := args[0].(Slice)
		i := int64(r.concInt(args[1], "trystore-i"))
		if i < 0 || i >= s.Len {
			r.goPanicStr("TryStore: index out of range")
		}
		defer func() {
			if p := recover(); p != nil {
				if _, ok := p.(fatalFault); ok {
					res = mkBool(false)
					return
				}
				panic(p)
			}
		}()
		r.storeInt(s.O, s.Off+i, args[2].(Int))
		return mkBool(true)
	}
	_ = sort.Ints
}

type mmapInfo struct{ prot, flags int }

func (r *Run) notExistErr() Value { return r.errnoValue(eNOENT) }
