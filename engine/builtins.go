package main

import (
	"fmt"
	"go/token"
	"go/types"

	"golang.org/x/tools/go/ssa"
)

// ---------- maps (association lists) ----------

type mapEntry struct {
	k   Value
	v   Value
	del bool
}

type MapObj struct {
	keyT, elemT types.Type
	ents        []*mapEntry
	n           int
}

type MapIter struct {
	m    *MapObj
	ents []*mapEntry
	i    int
	// string iteration
	s   Str
	pos int
	isS bool
}

func (r *Run) keyEq(t types.Type, a, b Value) bool {
	e := r.valEq(t, a, b)
	if e.N == nil {
		return e.C != 0
	}
	return r.branch(e.N, nil)
}

func (r *Run) mapFind(m *MapObj, k Value) *mapEntry {
	if m == nil {
		return nil
	}
	for _, e := range m.ents {
		if e.del {
			continue
		}
		if r.keyEq(m.keyT, e.k, k) {
			return e
		}
	}
	return nil
}

func (r *Run) mapUpdate(m *MapObj, k, v Value) {
	if e := r.mapFind(m, k); e != nil {
		e.v = copyVal(v)
		return
	}
	m.ents = append(m.ents, &mapEntry{k: copyVal(k), v: copyVal(v)})
	m.n++
}

func (r *Run) mapDelete(m *MapObj, k Value) {
	if e := r.mapFind(m, k); e != nil {
		e.del = true
		m.n--
		// compact occasionally
		if len(m.ents) > 32 && m.n < len(m.ents)/2 {
			ne := m.ents[:0:0]
			for _, e := range m.ents {
				if !e.del {
					ne = append(ne, e)
				}
			}
			m.ents = ne
		}
	}
}

func (r *Run) lookup(instr *ssa.Lookup, x, idx Value) Value {
	switch x := x.(type) {
	case Str:
		i := r.indexCheck(idx.(Int), instr.Index.Type(), int64(len(x.S)))
		return r.strByte(x, i)
	case *MapObj:
		mt := instr.X.Type().Underlying().(*types.Map)
		e := r.mapFind(x, idx)
		var v Value
		if e != nil {
			v = copyVal(e.v)
		} else {
			v = zero(mt.Elem())
		}
		if instr.CommaOk {
			return Tuple{v, mkBool(e != nil)}
		}
		return v
	}
	panic(fmt.Sprintf("lookup on %T", x))
}

func (r *Run) rangeIter(x Value, t types.Type) Value {
	switch x := x.(type) {
	case *MapObj:
		it := &MapIter{m: x}
		if x != nil {
			for _, e := range x.ents {
				if !e.del {
					it.ents = append(it.ents, e)
				}
			}
			if r.mapRotate && len(it.ents) > 1 {
				k := r.choose(len(it.ents), "i:maprot")
				rot := append([]*mapEntry{}, it.ents[k:]...)
				it.ents = append(rot, it.ents[:k]...)
			}
		}
		return it
	case Str:
		if x.N != nil {
			unsupported("range over symbolic string")
		}
		return &MapIter{s: x, isS: true}
	}
	panic(fmt.Sprintf("range over %T", x))
}

func (r *Run) iterNext(itv Value, instr *ssa.Next) Value {
	it := itv.(*MapIter)
	if it.isS {
		if it.pos >= len(it.s.S) {
			return Tuple{mkBool(false), mkInt(64, 0), mkInt(32, 0)}
		}
		c, n := decodeRune(it.s.S[it.pos:])
		res := Tuple{mkBool(true), mkInt(64, uint64(it.pos)), mkInt(32, uint64(c))}
		it.pos += n
		return res
	}
	for it.i < len(it.ents) {
		e := it.ents[it.i]
		it.i++
		if e.del {
			continue
		}
		return Tuple{mkBool(true), copyVal(e.k), copyVal(e.v)}
	}
	tt := instr.Type().(*types.Tuple)
	return Tuple{mkBool(false), zeroOrNil(tt.At(1).Type()), zeroOrNil(tt.At(2).Type())}
}

func zeroOrNil(t types.Type) Value {
	if b, ok := t.(*types.Basic); ok && b.Kind() == types.Invalid {
		return nil
	}
	return zero(t)
}

// ---------- builtins ----------

func (r *Run) callBuiltin(fr *frame, fn *ssa.Builtin, args []Value, pos token.Pos) Value {
	switch fn.Name() {
	case "len":
		switch x := args[0].(type) {
		case Str:
			return mkInt(64, uint64(len(x.S)))
		case Slice:
			return mkInt(64, uint64(x.Len))
		case *MapObj:
			if x == nil {
				return mkInt(64, 0)
			}
			return mkInt(64, uint64(x.n))
		case *ChanObj:
			if x == nil {
				return mkInt(64, 0)
			}
			return mkInt(64, uint64(len(x.buf)))
		case Array:
			return mkInt(64, uint64(len(x)))
		case Ptr:
			// *array: length from static type
			at := deref(fn.Type().(*types.Signature).Params().At(0).Type()).Underlying().(*types.Array)
			return mkInt(64, uint64(at.Len()))
		}
	case "cap":
		switch x := args[0].(type) {
		case Slice:
			return mkInt(64, uint64(x.Cap))
		case *ChanObj:
			if x == nil {
				return mkInt(64, 0)
			}
			return mkInt(64, uint64(x.cap))
		case Array:
			return mkInt(64, uint64(len(x)))
		case Ptr:
			at := deref(fn.Type().(*types.Signature).Params().At(0).Type()).Underlying().(*types.Array)
			return mkInt(64, uint64(at.Len()))
		}
	case "append":
		sig := fn.Type().(*types.Signature)
		st := sig.Params().At(0).Type().Underlying().(*types.Slice)
		return r.appendOp(st, args[0].(Slice), args[1])
	case "copy":
		dst := args[0].(Slice)
		sig := fn.Type().(*types.Signature)
		es := sizeof(sig.Params().At(0).Type().Underlying().(*types.Slice).Elem())
		switch src := args[1].(type) {
		case Slice:
			n := dst.Len
			if src.Len < n {
				n = src.Len
			}
			if n > 0 {
				r.memmove(dst.O, dst.Off, src.O, src.Off, n*es)
			}
			return mkInt(64, uint64(n))
		case Str:
			n := dst.Len
			if int64(len(src.S)) < n {
				n = int64(len(src.S))
			}
			for i := int64(0); i < n; i++ {
				r.storeInt(dst.O, dst.Off+i, r.strByte(src, i))
			}
			return mkInt(64, uint64(n))
		}
	case "delete":
		if m := args[0].(*MapObj); m != nil {
			r.mapDelete(m, args[1])
		}
		return nil
	case "close":
		r.chanClose(args[0].(*ChanObj))
		return nil
	case "panic":
		panic(targetPanic{args[0]})
	case "recover":
		return r.doRecover(fr)
	case "print", "println":
		return nil
	case "min", "max":
		acc := args[0]
		sig := fn.Type().(*types.Signature)
		t := sig.Params().At(0).Type()
		for _, a := range args[1:] {
			switch x := acc.(type) {
			case Int:
				op := token.LSS
				if fn.Name() == "max" {
					op = token.GTR
				}
				c := r.intBinop(op, t, a.(Int), x).(Int)
				if c.N == nil {
					if c.C != 0 {
						acc = a
					}
				} else {
					acc = r.fromNode(x.W, r.pool.Ite(c.N, r.node(a.(Int)), r.node(x)))
				}
			case Float:
				af := a.(Float)
				if (fn.Name() == "min" && af.F < x.F) || (fn.Name() == "max" && af.F > x.F) {
					acc = a
				}
			default:
				unsupported("min/max on %T", acc)
			}
		}
		return acc
	case "clear":
		switch x := args[0].(type) {
		case *MapObj:
			if x != nil {
				x.ents = nil
				x.n = 0
			}
		case Slice:
			sig := fn.Type().(*types.Signature)
			et := sig.Params().At(0).Type().Underlying().(*types.Slice).Elem()
			es := sizeof(et)
			for i := int64(0); i < x.Len; i++ {
				r.store(x.O, x.Off+i*es, et, zero(et))
			}
		}
		return nil
	case "ssa:wrapnilchk":
		recv := args[0]
		if p, ok := recv.(Ptr); ok && p.O == nil {
			r.goPanicStr(fmt.Sprintf("value method %v.%v called using nil pointer", args[1], args[2]))
		}
		return recv
	case "Add": // unsafe.Add
		p := args[0].(Ptr)
		n := int64(r.concInt(args[1], "unsafe.Add"))
		return Ptr{O: p.O, Off: p.Off + n}
	case "Slice": // unsafe.Slice(ptr, len)
		p := args[0].(Ptr)
		n := int64(r.concInt(args[1], "unsafe.Slice"))
		if p.O == nil {
			return Slice{}
		}
		return Slice{O: p.O, Off: p.Off, Len: n, Cap: n}
	case "SliceData":
		s := args[0].(Slice)
		return Ptr{O: s.O, Off: s.Off}
	case "String": // unsafe.String(ptr, len)
		p := args[0].(Ptr)
		n := int64(r.concInt(args[1], "unsafe.String"))
		c, sy := r.sliceBytes(Slice{O: p.O, Off: p.Off, Len: n, Cap: n})
		return Str{S: string(c), N: sy}
	case "StringData":
		s := args[0].(Str)
		o := r.newObj(int64(len(s.S)), "StringData")
		o.RO = false
		o.ensure(int64(len(s.S)))
		copy(o.B, s.S)
		return Ptr{O: o}
	}
	unsupported("builtin %s on %T", fn.Name(), args[0])
	return nil
}

func (r *Run) appendOp(st *types.Slice, s Slice, more Value) Value {
	et := st.Elem()
	es := sizeof(et)
	var addLen int64
	var srcS Slice
	var srcStr Str
	isStr := false
	switch m := more.(type) {
	case Slice:
		addLen = m.Len
		srcS = m
	case Str:
		addLen = int64(len(m.S))
		srcStr = m
		isStr = true
	default:
		panic(fmt.Sprintf("append of %T", more))
	}
	if addLen == 0 {
		return s
	}
	newLen := s.Len + addLen
	res := s
	if newLen > s.Cap || s.O == nil {
		// grow: Go-like doubling
		nc := s.Cap * 2
		if s.Cap >= 256 {
			nc = s.Cap + (s.Cap+768)/4
		}
		if nc < newLen {
			nc = newLen
		}
		o := r.newObj(nc*es, "append")
		if s.Len > 0 {
			r.memmove(o, 0, s.O, s.Off, s.Len*es)
		}
		res = Slice{O: o, Off: 0, Cap: nc}
	}
	res.Len = newLen
	if isStr {
		for i := int64(0); i < addLen; i++ {
			r.storeInt(res.O, res.Off+s.Len+i, r.strByte(srcStr, i))
		}
	} else {
		r.memmove(res.O, res.Off+s.Len*es, srcS.O, srcS.Off, addLen*es)
	}
	return res
}

func (r *Run) doRecover(fr *frame) Value {
	// fr is the frame of the deferred function calling recover(); its caller is the panicking frame.
	if fr != nil && !fr.panicking && fr.caller != nil && fr.caller.panicking {
		c := fr.caller
		c.panicking = false
		p := c.panicV
		c.panicV = nil
		if tp, ok := p.(targetPanic); ok {
			return tp.v
		}
		panic(p)
	}
	return Iface{}
}
