package bbolt

// D-DAMAGE (C11): files at rest with one damaged meta byte (either slot, any of the 64 bytes, any
// replacement value), both metas damaged, truncated files.

import (
	zz "go.etcd.io/bbolt/internal/zzverif"
)

func zzOpenCatch(path string, o *Options) (db *DB, err error, panicked bool) {
	defer func() {
		if r := recover(); r != nil {
			panicked = true
		}
	}()
	db, err = Open(path, 0600, o)
	return db, err, false
}

func HarnessDamage() {
	c := zzConfig()
	path := zz.TempPath("damage.db")
	db := zzMustOpen(path, c, "damage")
	zzSetup(db, zz.Param("setup", 1))
	older := zzViewDump(db, "damage/older")
	err := db.Update(func(tx *Tx) error {
		return tx.Bucket([]byte("b")).Put([]byte("k05"), zzVal(c.pageSize*3/10, 'D'))
	})
	zz.Assert(err == nil, "damage/commit")
	newest := zzViewDump(db, "damage/newest")
	zz.Assert(db.Close() == nil, "damage/close")
	im := zzDecode(zz.FileBytes(path), c.pageSize)
	zz.Assert(im.cur >= 0 && im.meta[0].ok && im.meta[1].ok, "damage/both-metas-valid-at-rest")
	ps := int64(c.pageSize)
	poke := func(slot int) {
		pos := int64(zz.Choose(64))
		nv := zz.U8("newbyte")
		off := int64(slot)*ps + 16 + pos
		zz.Assume(nv != zz.PeekFile(path, off))
		zz.PokeFile(path, off, nv)
	}
	// open options: page size left to auto-detection
	o := c.options()
	o.PageSize = 0
	switch zz.Choose(zz.Param("cases", 4)) {
	case 0, 1:
		slot := zz.Choose(2)
		poke(slot)
		db2, err, p := zzOpenCatch(path, o)
		zz.Assert(!p, "damage/open-does-not-panic")
		zz.Assert(err == nil, "damage/open-succeeds-with-one-damaged-meta")
		if err != nil || p {
			return
		}
		zz.Assert(db2.pageSize == c.pageSize, "damage/page-size-detected")
		got := zzViewDump(db2, "damage/reopened")
		if slot == im.cur {
			zz.Reach("newest-meta-damaged")
			zz.Assert(zzSameKVs(got, older), "damage/presents-older-meta-state")
		} else {
			zz.Reach("older-meta-damaged")
			zz.Assert(zzSameKVs(got, newest), "damage/presents-newest-meta-state")
		}
		n := 0
		_ = db2.View(func(tx *Tx) error {
			for range tx.Check() {
				n++
			}
			return nil
		})
		zz.Assert(n == 0, "damage/Check-silent")
		zz.Assert(db2.Close() == nil, "damage/close2")
	case 2:
		zz.Reach("both-damaged")
		poke(0)
		poke(1)
		db2, err, p := zzOpenCatch(path, o)
		zz.Assert(!p, "damage/both-damaged-no-panic")
		zz.Assert(err != nil && db2 == nil, "damage/both-damaged-open-fails")
	case 3:
		zz.Reach("truncated")
		b := zz.FileBytes(path)
		cut := []int{0, 100, c.pageSize, c.pageSize + 100, 2*c.pageSize - 1}[zz.Choose(5)]
		zz.WriteFileBytes(path, b[:cut])
		db2, err, p := zzOpenCatch(path, o)
		zz.Assert(!p, "damage/truncated-no-panic")
		if cut == 0 {
			// an empty file is a new database
			zz.Assert(err == nil, "damage/empty-file-is-initialised")
			if db2 != nil {
				_ = db2.Close()
			}
		} else {
			zz.Assert(err != nil && db2 == nil, "damage/truncated-open-fails")
		}
	case 4:
		// partial overwrite of the older meta by a would-be newer one: the next commit's data pages are
		// on disk, its meta write is torn at byte k (either part first)
		metaAt := func(b []byte, slot int) []byte { return zzClone(b[slot*c.pageSize+16 : slot*c.pageSize+16+64]) }
		f0 := zz.FileBytes(path)
		old := 1 - im.cur
		a := metaAt(f0, old)
		db1 := zzMustOpen(path, c, "damage/reopen-for-next-commit")
		err := db1.Update(func(tx *Tx) error {
			return tx.Bucket([]byte("b")).Put([]byte("k07"), zzVal(c.pageSize*3/10, 'E'))
		})
		zz.Assert(err == nil, "damage/next-commit")
		next := zzViewDump(db1, "damage/next")
		zz.Assert(db1.Close() == nil, "damage/close-after-next")
		f1 := zz.FileBytes(path)
		n := metaAt(f1, old)
		zz.Assert(zzReadMeta(f1, old*c.pageSize).ok && zzReadMeta(f1, old*c.pageSize).txid == im.m.txid+1, "damage/next-meta-went-to-the-older-slot")
		k := 1 + zz.Choose(63)
		mix := make([]byte, 64)
		if zz.Choose(2) == 0 {
			copy(mix, n[:k])
			copy(mix[k:], a[k:])
		} else {
			copy(mix, a[:k])
			copy(mix[k:], n[k:])
		}
		for i := 0; i < 64; i++ {
			zz.PokeFile(path, int64(old)*ps+16+int64(i), mix[i])
		}
		mm := zzReadMeta(zz.FileBytes(path), old*c.pageSize)
		db2, err, p := zzOpenCatch(path, o)
		zz.Assert(!p, "damage/torn-meta-open-does-not-panic")
		zz.Assert(err == nil, "damage/torn-meta-open-succeeds")
		if err != nil || p {
			return
		}
		got := zzViewDump(db2, "damage/torn-reopened")
		if mm.ok && mm.txid > im.m.txid {
			zz.Reach("torn-meta-complete") // every differing byte already arrived: the commit is simply there
			zz.Assert(zzSameKVs(got, next), "damage/complete-new-meta-presents-new-state")
		} else {
			zz.Reach("torn-meta-rejected")
			zz.Assert(zzSameKVs(got, newest), "damage/torn-meta-presents-last-committed-state")
		}
		cnt := 0
		_ = db2.View(func(tx *Tx) error {
			for range tx.Check() {
				cnt++
			}
			return nil
		})
		zz.Assert(cnt == 0, "damage/torn-meta-Check-silent")
		zz.Assert(db2.Close() == nil, "damage/close3")
	}
	zz.Reach("done")
}
