package common

// Kernel harnesses for the meta page and its checksum (C11, C12, C06/C01 lemmas).

import (
	"encoding"
	"hash/fnv"
	"unsafe"

	"go.etcd.io/bbolt/errors"
	zz "go.etcd.io/bbolt/internal/zzverif"
)

func zzLE32(b []byte, o int) uint32 {
	return uint32(b[o]) | uint32(b[o+1])<<8 | uint32(b[o+2])<<16 | uint32(b[o+3])<<24
}
func zzLE64(b []byte, o int) uint64 { return uint64(zzLE32(b, o)) | uint64(zzLE32(b, o+4))<<32 }

// reference FNV-1a (64 bit) from its published definition
func zzFNV(b []byte) uint64 {
	h := uint64(14695981039346656037)
	for _, c := range b {
		h ^= uint64(c)
		h *= 1099511628211
	}
	return h
}

// HarnessMetaValidate, part 1 (HarnessMetaSum): the real Meta.Sum64 on 64 symbolic bytes is, as an
// expression, exactly the published FNV-1a-64 fold over the first 56 bytes of the structure
// (structural identity of the two bit-vector terms – no solver involved, holds for every input).
func HarnessMetaSum() {
	buf := zz.Bytes("page", 16+64)
	m := LoadPageMeta(buf)
	zz.Assert(zz.SameExpr(m.Sum64(), zzFNV(buf[16:16+56])), "sum64/is-fnv1a-of-bytes-0..55")
	zz.Reach("done")
}

// HarnessMetaValidate, part 2: with Sum64 summarised by an arbitrary 64-bit value S (justified by
// part 1), Validate on 64 symbolic bytes accepts exactly magic ∧ version ∧ checksum@56 == S, with
// the documented error otherwise.
func HarnessMetaValidate() {
	buf := zz.Bytes("page", 16+64)
	m := LoadPageMeta(buf)
	S := zz.U64("S")
	zz.StubReturn64("(*go.etcd.io/bbolt/internal/common.Meta).Sum64", S)
	magicOK := zzLE32(buf, 16) == 0xED0CDAED
	verOK := zzLE32(buf, 20) == 2
	sumOK := zzLE64(buf, 16+56) == S
	err := m.Validate()
	zz.StubClear()
	switch {
	case err == nil:
		zz.Reach("valid")
		zz.Assert(zz.And(magicOK, zz.And(verOK, sumOK)), "validate/accepts-only-valid")
	case err == errors.ErrInvalid:
		zz.Reach("bad-magic")
		zz.Assert(!magicOK, "validate/ErrInvalid-iff-magic")
	case err == errors.ErrVersionMismatch:
		zz.Reach("bad-version")
		zz.Assert(zz.And(magicOK, !verOK), "validate/ErrVersionMismatch-iff-version")
	case err == errors.ErrChecksum:
		zz.Reach("bad-checksum")
		zz.Assert(zz.And(magicOK, zz.And(verOK, !sumOK)), "validate/ErrChecksum-iff-checksum")
	default:
		zz.Assert(false, "validate/unknown-error")
	}
}

// zzStep runs the real hash/fnv 64a implementation for one byte from an arbitrary state.
func zzStep(state uint64, c byte) uint64 {
	h := fnv.New64a()
	enc := []byte{'f', 'n', 'v', 4, byte(state >> 56), byte(state >> 48), byte(state >> 40), byte(state >> 32), byte(state >> 24), byte(state >> 16), byte(state >> 8), byte(state)}
	if err := h.(encoding.BinaryUnmarshaler).UnmarshalBinary(enc); err != nil {
		zz.Assert(false, "fnv/unmarshal")
	}
	_, _ = h.Write([]byte{c})
	return h.Sum64()
}

// HarnessFNVStep: the two one-step lemmas of the relational loop invariant "two runs that differ in
// exactly one input byte have different running sums from that byte on", on the real Write body.
func HarnessFNVStep() {
	s := zz.U64("state")
	b1, b2 := zz.U8("b1"), zz.U8("b2")
	// base: equal states, different bytes -> different states
	zz.Assert(zz.Implies(b1 != b2, zzStep(s, b1) != zzStep(s, b2)), "fnv/step-byte-injective")
	// step: different states, same byte -> different states
	s2 := zz.U64("state2")
	zz.Assert(zz.Implies(s != s2, zzStep(s, b1) != zzStep(s2, b1)), "fnv/step-state-injective")
	// the real step equals the published definition
	zz.Assert(zzStep(s, b1) == (s^uint64(b1))*1099511628211, "fnv/step-is-fnv1a")
	// Sum64 of the empty input is the offset basis (so Meta.Sum64 starts from it)
	zz.Assert(fnv.New64a().Sum64() == 14695981039346656037, "fnv/offset-basis")
	zz.Reach("done")
}

// HarnessMetaSingleByte: a valid meta with one byte of the checksummed body or of the checksum
// replaced by a different value never validates (real Validate, symbolic position forked, symbolic
// replacement value; body bytes concrete-shaped but symbolic in txid/root/pgid).
func HarnessMetaSingleByte() {
	buf := make([]byte, 16+64)
	m := LoadPageMeta(buf)
	m.SetMagic(Magic)
	m.SetVersion(Version)
	m.SetPageSize(uint32(zz.Param("pagesize", 4096)))
	m.SetRootBucket(NewInBucket(Pgid(zz.Param("root", 3)), uint64(zz.Param("seq", 7))))
	m.SetFreelist(Pgid(zz.Param("freelist", 2)))
	m.SetPgid(Pgid(zz.Param("pgid", 9)))
	m.SetTxid(Txid(zz.Param("txid", 12)))
	m.SetChecksum(m.Sum64())
	zz.Assert(m.Validate() == nil, "single/valid-before-damage")
	pos := zz.Choose(64)
	nv := zz.U8("newbyte")
	zz.Assume(nv != buf[16+pos])
	buf[16+pos] = nv
	zz.Assert(m.Validate() != nil, "single/damage-detected")
	zz.Reach("done")
}

// HarnessMetaWrite: Meta.Write refuses root/freelist beyond the high-water mark, picks slot
// txid mod 2 for every 64-bit txid, and lays the fields out at the published offsets with a valid
// checksum (decoded with literal offsets only).
func HarnessMetaWrite() {
	var m Meta
	m.SetMagic(Magic)
	m.SetVersion(Version)
	ps := uint32(zz.U32("pagesize"))
	fl := uint32(zz.U32("flags"))
	root, seq := zz.U64("root"), zz.U64("seq")
	freelist, pgid, txid := zz.U64("freelist"), zz.U64("pgid"), zz.U64("txid")
	m.SetPageSize(ps)
	m.SetFlags(fl)
	m.SetRootBucket(NewInBucket(Pgid(root), seq))
	m.SetFreelist(Pgid(freelist))
	m.SetPgid(Pgid(pgid))
	m.SetTxid(Txid(txid))
	buf := make([]byte, 4096)
	p := (*Page)(unsafe.Pointer(&buf[0]))
	panicked := zzCatch(func() { m.Write(p) })
	bad := zz.Or(root >= pgid, zz.And(freelist >= pgid, freelist != 0xffffffffffffffff))
	if panicked {
		zz.Reach("refused")
		zz.Assert(bad, "metawrite/panics-only-when-root-or-freelist-beyond-hwm")
		return
	}
	zz.Reach("written")
	zz.Assert(!bad, "metawrite/must-refuse-root-or-freelist-beyond-hwm")
	zz.Assert(zzLE64(buf, 0) == txid%2, "metawrite/slot-is-txid-mod-2")
	zz.Assert(uint16(buf[8])|uint16(buf[9])<<8 == 0x04, "metawrite/page-flag-meta")
	zz.Assert(zzLE32(buf, 16) == 0xED0CDAED, "metawrite/magic@16")
	zz.Assert(zzLE32(buf, 20) == 2, "metawrite/version@20")
	zz.Assert(zzLE32(buf, 24) == ps, "metawrite/pagesize@24")
	zz.Assert(zzLE32(buf, 28) == fl, "metawrite/flags@28")
	zz.Assert(zzLE64(buf, 32) == root, "metawrite/root@32")
	zz.Assert(zzLE64(buf, 40) == seq, "metawrite/sequence@40")
	zz.Assert(zzLE64(buf, 48) == freelist, "metawrite/freelist@48")
	zz.Assert(zzLE64(buf, 56) == pgid, "metawrite/pgid@56")
	zz.Assert(zzLE64(buf, 64) == txid, "metawrite/txid@64")
	zz.Assert(zzLE64(buf, 72) == zzFNV(buf[16:72]), "metawrite/checksum@72-is-fnv1a-of-first-56-bytes")
}

func zzCatch(f func()) (panicked bool) {
	defer func() {
		if r := recover(); r != nil {
			panicked = true
		}
	}()
	f()
	return false
}
