package bbolt

// Self-tests: concrete histories executed by the engine (on the vos) and natively (real file, real
// kernel); every observation must be identical. This validates the SSA semantics, the memory model
// and the vos against the real build and the real OS.

import (
	zz "go.etcd.io/bbolt/internal/zzverif"
)

func zzFNVBytes(b []byte) uint64 {
	h := uint64(14695981039346656037)
	for _, c := range b {
		h ^= uint64(c)
		h *= 1099511628211
	}
	return h
}

func zzDigestDump(name string, d []zzKV) {
	h := uint64(14695981039346656037)
	for _, e := range d {
		h = (h ^ uint64(e.depth)) * 1099511628211
		if e.bucket {
			h = (h ^ 0xB) * 1099511628211
		}
		h = (h ^ e.seq) * 1099511628211
		h = (h ^ zzFNVBytes(e.key)) * 1099511628211
		h = (h ^ zzFNVBytes(e.val)) * 1099511628211
	}
	zz.Digest(name+"/entries", uint64(len(d)))
	zz.Digest(name+"/content", h)
}

// SelfTestDB: single-bucket history (page layout is deterministic: no map iteration involved), so
// even the file bytes must be identical; then a nested history compared at the logical level.
func SelfTestDB() {
	for _, ps := range []int{1024, 4096} {
		c := zzCfg{pageSize: ps}
		path := zz.TempPath("self.db")
		db := zzMustOpen(path, c, "self")
		zzSetup(db, 1)
		zzDigestDump("setup1", zzViewDump(db, "self/d1"))
		err := db.Update(func(tx *Tx) error {
			b := tx.Bucket([]byte("b"))
			if err := b.Delete([]byte("k04")); err != nil {
				return err
			}
			if err := b.Put([]byte("k05"), zzVal(ps+77, 'q')); err != nil {
				return err
			}
			_, err := b.NextSequence()
			return err
		})
		zz.Assert(err == nil, "self/update")
		st := db.Stats()
		zz.Digest("freeN", uint64(st.FreePageN))
		zz.Digest("pendingN", uint64(st.PendingPageN))
		zz.Digest("freelistInuse", uint64(st.FreelistInuse))
		_ = db.View(func(tx *Tx) error {
			zz.Digest("txid", uint64(tx.ID()))
			zz.Digest("size", uint64(tx.Size()))
			cur := tx.Bucket([]byte("b")).Cursor()
			k, _ := cur.Seek([]byte("k05x"))
			zz.Digest("seek", zzFNVBytes(k))
			k, _ = cur.Prev()
			zz.Digest("prev", zzFNVBytes(k))
			k, _ = cur.Last()
			zz.Digest("last", zzFNVBytes(k))
			n := 0
			for range tx.Check() {
				n++
			}
			zz.Digest("check-errors", uint64(n))
			return nil
		})
		zzDigestDump("after", zzViewDump(db, "self/d2"))
		zz.Assert(db.Close() == nil, "self/close")
		fb := zz.FileBytes(path)
		zz.Digest("file-size", uint64(len(fb)))
		zz.Digest("file-bytes", zzFNVBytes(fb))
		// reopen with the hashmap backend and no freelist sync, nested buckets
		c2 := zzCfg{pageSize: ps, hashmap: true, noFLSync: true}
		db = zzMustOpen(path, c2, "self/reopen")
		err = db.Update(func(tx *Tx) error {
			nb, err := tx.Bucket([]byte("b")).CreateBucket([]byte("nested"))
			if err != nil {
				return err
			}
			if err := nb.Put([]byte("x"), zzVal(ps/2, 'y')); err != nil {
				return err
			}
			return tx.Bucket([]byte("b")).Delete([]byte("k00"))
		})
		zz.Assert(err == nil, "self/update2")
		zzDigestDump("nested", zzViewDump(db, "self/d3"))
		zz.Digest("freeN2", uint64(db.Stats().FreePageN))
		zz.Assert(db.Close() == nil, "self/close2")
		zz.Digest("file-size2", uint64(zz.FileSize(path)))
		zz.WriteFileBytes(path, nil)
		zz.PokeDelete(path)
	}
}
