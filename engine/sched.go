package main

// Cooperative goroutines: each target goroutine runs on its own Go goroutine, exactly one holds
// the baton at a time. Context switches happen only at synchronisation operations.

import (
	"fmt"
	"go/token"
	"go/types"
	"strings"
)

type gStatus int

const (
	gRunnable gStatus = iota
	gRunning
	gBlocked
	gDone
)

type G struct {
	id     int
	r      *Run
	status gStatus
	wake   chan struct{}
	waitOn string
	done   chan struct{}
	timer  *vTimer
	depth  int
	top    *frame
	cond   func() bool // blocked goroutine: enabled again when cond() holds
}

type ChanObj struct {
	cap         int
	elem        types.Type
	buf         []Value
	closed      bool
	recvWaiting int
}

type lockKey struct {
	o   *Obj
	off int64
}

type lockState struct {
	writer        bool
	readers       int
	owner         int
	writerWaiting int // RWMutex: a blocked Lock call excludes new readers (Go's writer preference)
}

type onceState struct {
	done bool
}

type vTimer struct {
	stopped bool
	fired   bool
	when    int64
}

func (r *Run) spawn(fn Value, args []Value, pos token.Pos) *G {
	return r.spawnG(fn, args, pos, nil)
}

func (r *Run) spawnG(fn Value, args []Value, pos token.Pos, tm *vTimer) *G {
	r.nextGID++
	g := &G{id: r.nextGID, r: r, status: gRunnable, wake: make(chan struct{}, 1), done: make(chan struct{}), timer: tm}
	if tm != nil {
		g.status = gBlocked
		g.waitOn = "timer"
	}
	r.gs = append(r.gs, g)
	go func() {
		defer close(g.done)
		<-g.wake
		if r.killed {
			return
		}
		defer func() {
			p := recover()
			g.status = gDone
			switch p.(type) {
			case nil:
			case goexit:
				return
			default:
				r.gPanic = p
			}
			r.scheduleNext(g)
		}()
		r.cur = g
		g.status = gRunning
		if tm != nil {
			tm.fired = true
		}
		r.call(nil, fn, args, pos)
	}()
	if r.job.SchedAll && tm == nil {
		r.yield("spawn")
	}
	return g
}

// scheduleNext passes the baton on; from.status has been set by the caller
// (runnable, blocked or done). Returns when `from` holds the baton again.
func (r *Run) scheduleNext(from *G) {
	main := r.gs[0]
	var next *G
	if r.gPanic != nil {
		next = main
	} else {
		var cands []*G
		excl := r.exclude
		r.exclude = nil
		for _, g := range r.gs {
			if g == excl {
				continue
			}
			if g.status == gRunnable || (g.status == gBlocked && g.cond != nil && g != from && g.cond()) {
				cands = append(cands, g)
			}
		}
		if r.job.SchedAll || len(cands) == 0 {
			// pending timers may fire
			var tg *G
			for _, g := range r.gs {
				if g.timer != nil && g.status == gBlocked && !g.timer.stopped && !g.timer.fired {
					if tg == nil || g.timer.when < tg.timer.when {
						tg = g
					}
				}
			}
			if tg != nil {
				cands = append(cands, tg)
			}
		}
		if len(cands) == 0 && excl != nil {
			cands = append(cands, excl)
		}
		switch {
		case len(cands) == 0:
			r.deadlock = true
			if from == main {
				r.reportDeadlock()
			}
			next = main
		case r.job.SchedAll && len(cands) > 1:
			next = cands[r.choose(len(cands), "i:sched")]
		default:
			next = cands[0]
		}
		if next.timer != nil && !next.timer.fired && r.vos.now < next.timer.when {
			r.vos.now = next.timer.when
		}
	}
	if next == from {
		from.status = gRunning
		return
	}
	next.wake <- struct{}{}
	if from.status == gDone {
		return
	}
	<-from.wake
	if r.killed {
		panic(goexit{})
	}
	r.cur = from
	from.status = gRunning
	if from == main {
		if r.gPanic != nil {
			p := r.gPanic
			r.gPanic = nil
			panic(p)
		}
		if r.deadlock {
			r.reportDeadlock()
		}
	}
}

func (r *Run) reportDeadlock() {
	msg := "deadlock: all goroutines blocked:"
	for _, g := range r.gs {
		if g.status == gBlocked && (g.timer == nil || g.timer.fired) {
			msg += fmt.Sprintf(" g%d(%s)", g.id, g.waitOn)
		}
	}
	panic(fatalFault{msg})
}

// blockUntil parks the current goroutine until cond() holds.
func (r *Run) blockUntil(what string, cond func() bool) {
	g := r.cur
	for !cond() {
		g.status = gBlocked
		g.waitOn = what
		g.cond = cond
		r.scheduleNext(g)
	}
	g.cond = nil
}

// wakeAll marks blocked goroutines runnable so that they re-check their conditions.
func (r *Run) wakeAll() {
	// blocked goroutines carry their wake-up condition (G.cond); the scheduler evaluates it, so there
	// are no spurious wake-ups and nothing to do here.
}

// yield offers a context switch at a synchronisation point. Under sched=all every runnable
// goroutine (and every pending timer) may be chosen, as long as the preemption budget lasts:
// switching away from a goroutine that could have continued counts as one preemption
// (context-bounded exploration); switches at blocking points are always free.
func (r *Run) yield(what string) {
	if len(r.gs) == 1 {
		return
	}
	g := r.cur
	if r.job.SchedAll {
		if r.preemptions >= r.job.PreemptBound {
			return
		}
		if len(r.job.PreemptFuncs) > 0 {
			// preemption points only inside the designated functions (the code under test)
			ok := false
			if g.top != nil {
				name := g.top.fn.String()
				for _, p := range r.job.PreemptFuncs {
					if strings.HasPrefix(name, p) {
						ok = true
					}
				}
			}
			if !ok {
				return
			}
		}
		others := 0
		for _, x := range r.gs {
			if x != g && (x.status == gRunnable || (x.status == gBlocked && x.cond != nil && x.cond()) || (x.timer != nil && x.status == gBlocked && !x.timer.stopped && !x.timer.fired)) {
				others++
			}
		}
		if others == 0 {
			return
		}
		if r.choose(2, "i:preempt:"+what) == 0 {
			return
		}
		r.preemptions++
		g.status = gRunnable
		r.scheduleNextExcluding(g)
		return
	}
	g.status = gRunnable
	r.scheduleNext(g)
}

// scheduleNextExcluding: like scheduleNext but the current goroutine is not a candidate
// (it was preempted on purpose).
func (r *Run) scheduleNextExcluding(from *G) {
	r.exclude = from
	r.scheduleNext(from)
}

func (r *Run) killGoroutines() {
	r.killed = true
	for _, g := range r.gs[1:] {
		if g.status != gDone {
			select {
			case g.wake <- struct{}{}:
			default:
			}
		}
	}
	for _, g := range r.gs[1:] {
		<-g.done
	}
}

// ---- channels ----

func (r *Run) chanSend(c *ChanObj, v Value) {
	if c == nil {
		r.blockUntil("send on nil chan", func() bool { return false })
	}
	if c.closed {
		r.goPanicStr("send on closed channel")
	}
	if c.cap > 0 {
		r.blockUntil("chan send", func() bool { return len(c.buf) < c.cap || c.closed })
		if c.closed {
			r.goPanicStr("send on closed channel")
		}
		c.buf = append(c.buf, copyVal(v))
		r.wakeAll()
		if r.job.SchedAll {
			r.yield("chan send")
		}
		return
	}
	// unbuffered: wait for a receiver, then hand over
	r.blockUntil("chan send (unbuffered)", func() bool { return (c.recvWaiting > 0 && len(c.buf) == 0) || c.closed })
	if c.closed {
		r.goPanicStr("send on closed channel")
	}
	c.buf = append(c.buf, copyVal(v))
	r.wakeAll()
	r.blockUntil("chan send handoff", func() bool { return len(c.buf) == 0 })
}

func (r *Run) chanRecv(c *ChanObj) (Value, bool) {
	if c == nil {
		r.blockUntil("recv on nil chan", func() bool { return false })
	}
	if c.cap == 0 {
		c.recvWaiting++
		r.wakeAll()
	}
	r.blockUntil("chan recv", func() bool { return len(c.buf) > 0 || c.closed })
	if c.cap == 0 {
		c.recvWaiting--
	}
	if len(c.buf) > 0 {
		v := c.buf[0]
		c.buf = c.buf[1:]
		r.wakeAll()
		return v, true
	}
	return zero(c.elem), false
}

func (r *Run) chanClose(c *ChanObj) {
	if c == nil {
		r.goPanicStr("close of nil channel")
	}
	if c.closed {
		r.goPanicStr("close of closed channel")
	}
	c.closed = true
	r.wakeAll()
}

// ---- mutexes ----

func (r *Run) lockOf(p Ptr) *lockState {
	k := lockKey{p.O, p.Off}
	ls := r.locks[k]
	if ls == nil {
		ls = &lockState{}
		r.locks[k] = ls
	}
	return ls
}

func (r *Run) mutexLock(p Ptr) {
	if p.O == nil {
		r.goPanicStr("runtime error: invalid memory address or nil pointer dereference (Lock on nil mutex)")
	}
	ls := r.lockOf(p)
	if r.job.SchedAll {
		r.yield("lock")
	}
	if ls.writer || ls.readers > 0 {
		ls.writerWaiting++
		r.blockUntil("Mutex.Lock", func() bool { return !ls.writer && ls.readers == 0 })
		ls.writerWaiting--
	}
	ls.writer = true
	ls.owner = r.cur.id
}

func (r *Run) mutexUnlock(p Ptr) {
	ls := r.lockOf(p)
	if !ls.writer {
		panic(fatalFault{"fatal error: sync: unlock of unlocked mutex"})
	}
	ls.writer = false
	r.wakeAll()
	if r.job.SchedAll {
		r.yield("unlock")
	}
}

func (r *Run) rwRLock(p Ptr) {
	ls := r.lockOf(p)
	if r.job.SchedAll {
		r.yield("rlock")
	}
	r.blockUntil("RWMutex.RLock", func() bool { return !ls.writer && ls.writerWaiting == 0 })
	ls.readers++
}

func (r *Run) rwRUnlock(p Ptr) {
	ls := r.lockOf(p)
	if ls.readers <= 0 {
		panic(fatalFault{"fatal error: sync: RUnlock of unlocked RWMutex"})
	}
	ls.readers--
	r.wakeAll()
	if r.job.SchedAll {
		r.yield("runlock")
	}
}

func (r *Run) selectOp(instr interface{}, fr *frame) Value {
	unsupported("select statement")
	return nil
}
