package bbolt

// D-MODEL (C04): the Bucket/Tx API against a reference model – a tree of sorted byte-string maps,
// each with a counter.

import (
	"bytes"

	berrors "go.etcd.io/bbolt/errors"
	zz "go.etcd.io/bbolt/internal/zzverif"
)

type zzMB struct {
	keys [][]byte
	vals [][]byte
	subs []*zzMB // non-nil: nested bucket
	seq  uint64
}

func (m *zzMB) find(k []byte) (int, bool) {
	i := 0
	for i < len(m.keys) {
		c := bytes.Compare(m.keys[i], k)
		if c == 0 {
			return i, true
		}
		if c > 0 {
			break
		}
		i++
	}
	return i, false
}

func (m *zzMB) insert(i int, k, v []byte, sub *zzMB) {
	m.keys = append(m.keys[:i], append([][]byte{zzClone(k)}, m.keys[i:]...)...)
	m.vals = append(m.vals[:i], append([][]byte{zzClone(v)}, m.vals[i:]...)...)
	m.subs = append(m.subs[:i], append([]*zzMB{sub}, m.subs[i:]...)...)
}

func (m *zzMB) remove(i int) {
	m.keys = append(m.keys[:i:i], m.keys[i+1:]...)
	m.vals = append(m.vals[:i:i], m.vals[i+1:]...)
	m.subs = append(m.subs[:i:i], m.subs[i+1:]...)
}

func (m *zzMB) clone() *zzMB {
	c := &zzMB{seq: m.seq}
	for i := range m.keys {
		c.keys = append(c.keys, m.keys[i])
		c.vals = append(c.vals, m.vals[i])
		if m.subs[i] != nil {
			c.subs = append(c.subs, m.subs[i].clone())
		} else {
			c.subs = append(c.subs, nil)
		}
	}
	return c
}

func (m *zzMB) flatten(depth int, out *[]zzKV) {
	for i := range m.keys {
		if m.subs[i] != nil {
			*out = append(*out, zzKV{depth: depth, bucket: true, seq: m.subs[i].seq, key: m.keys[i]})
			m.subs[i].flatten(depth+1, out)
			*out = append(*out, zzKV{depth: depth, bucket: true, seq: ^uint64(0)})
		} else {
			*out = append(*out, zzKV{depth: depth, key: m.keys[i], val: m.vals[i]})
		}
	}
}

// zzModelOf builds the model from a dump (used once, for the committed setup state).
func zzModelOf(d []zzKV) *zzMB {
	root := &zzMB{}
	stack := []*zzMB{root}
	for _, e := range d {
		top := stack[len(stack)-1]
		switch {
		case e.bucket && e.seq == ^uint64(0):
			stack = stack[:len(stack)-1]
		case e.bucket:
			sub := &zzMB{seq: e.seq}
			top.keys = append(top.keys, e.key)
			top.vals = append(top.vals, nil)
			top.subs = append(top.subs, sub)
			stack = append(stack, sub)
		default:
			top.keys = append(top.keys, e.key)
			top.vals = append(top.vals, e.val)
			top.subs = append(top.subs, nil)
		}
	}
	return root
}

type zzTarget struct {
	b *Bucket // nil: the transaction root (only bucket ops)
	m *zzMB
}

// zzPickTarget chooses the bucket an operation is applied to: root, "b", or a nested bucket of "b".
func zzPickTarget(tx *Tx, root *zzMB, n int) zzTarget {
	switch zz.Choose(n) {
	case 0:
		i, ok := root.find([]byte("b"))
		if !ok || root.subs[i] == nil {
			zz.Assert(tx.Bucket([]byte("b")) == nil, "model/missing-bucket-is-nil")
			return zzTarget{nil, root}
		}
		b := tx.Bucket([]byte("b"))
		zz.Assert(b != nil, "model/bucket-b-opens")
		return zzTarget{b, root.subs[i]}
	case 1:
		return zzTarget{nil, root}
	default:
		i, ok := root.find([]byte("b"))
		if !ok || root.subs[i] == nil {
			return zzTarget{nil, root}
		}
		mb := root.subs[i]
		b := tx.Bucket([]byte("b"))
		name := []byte("pg")
		if zz.Choose(2) == 1 {
			name = []byte("in")
		}
		j, ok := mb.find(name)
		nb := b.Bucket(name)
		if !ok || mb.subs[j] == nil {
			zz.Assert(nb == nil, "model/missing-nested-bucket-is-nil")
			return zzTarget{b, mb}
		}
		zz.Assert(nb != nil, "model/nested-bucket-opens")
		return zzTarget{nb, mb.subs[j]}
	}
}

func zzSameBytes(a, b []byte) bool {
	if (a == nil) != (b == nil) {
		return false
	}
	return len(a) == len(b) && bytes.Equal(a, b)
}

// Key and name arguments are handed to the API in private buffers that are overwritten as soon as the
// call has returned (a caller may reuse its key buffer; only values must stay valid until the
// transaction ends, as documented for Put).
var zzArgBufs [][]byte

func zzArg(k []byte) []byte {
	c := zzClone(k)
	zzArgBufs = append(zzArgBufs, c)
	return c
}

func zzScribbleArgs() {
	for _, b := range zzArgBufs {
		for i := range b {
			b[i] = 0xEE
		}
	}
	zzArgBufs = nil
}

// zzModelOp applies one symbolic API call to both the real transaction and the model and compares
// every returned value and error.
func zzModelOp(tx *Tx, root *zzMB, writable bool, ps int, mask int) {
	defer zzScribbleArgs()
	t := zzPickTarget(tx, root, 3)
	var en []int
	for i := 0; i < 16; i++ {
		if mask&(1<<i) != 0 {
			en = append(en, i)
		}
	}
	op := en[zz.Choose(len(en))]
	roErr := func(err error) bool { // every mutation on a read-only tx fails with ErrTxNotWritable
		if !writable {
			zz.Assert(err == berrors.ErrTxNotWritable, "model/read-only-tx-rejects-mutation")
			return true
		}
		return false
	}
	if t.b == nil {
		// transaction root: bucket operations only
		name := zzSymKey("rootname")
		if zz.Choose(2) == 0 {
			name = []byte("b")
		}
		i, ok := root.find(name)
		switch op % 3 {
		case 0:
			zz.Reach("tx.CreateBucket")
			_, err := tx.CreateBucket(zzArg(name))
			if roErr(err) {
				return
			}
			if ok {
				zz.Assert(err == berrors.ErrBucketExists, "model/create-existing-bucket")
			} else {
				zz.Assert(err == nil, "model/create-bucket")
				root.insert(i, name, nil, &zzMB{})
			}
		case 1:
			zz.Reach("tx.DeleteBucket")
			err := tx.DeleteBucket(zzArg(name))
			if roErr(err) {
				return
			}
			if !ok {
				zz.Assert(err == berrors.ErrBucketNotFound, "model/delete-missing-bucket")
			} else {
				zz.Assert(err == nil, "model/delete-bucket")
				root.remove(i)
			}
		case 2:
			zz.Reach("tx.CreateBucketIfNotExists")
			b, err := tx.CreateBucketIfNotExists(zzArg(name))
			if roErr(err) {
				return
			}
			zz.Assert(err == nil && b != nil, "model/create-if-not-exists")
			if !ok {
				root.insert(i, name, nil, &zzMB{})
			}
		}
		return
	}
	b, m := t.b, t.m
	switch op {
	case 0:
		zz.Reach("Put")
		k := zzSymKey("putk")
		if zz.Choose(3) == 0 {
			k = []byte("pg") // the name of a nested bucket (when the target is "b")
		}
		v := zzVal(zzValLen(ps), 'P')
		if len(v) > 0 {
			v[0] = zz.U8("putv0")
		}
		err := b.Put(zzArg(k), v)
		if roErr(err) {
			return
		}
		i, ok := m.find(k)
		if ok && m.subs[i] != nil {
			zz.Assert(err == berrors.ErrIncompatibleValue, "model/put-over-bucket")
		} else {
			zz.Assert(err == nil, "model/put")
			if ok {
				m.vals[i] = zzClone(v)
			} else {
				m.insert(i, k, v, nil)
			}
		}
	case 1:
		zz.Reach("Get")
		k := zzSymKey("getk")
		got := b.Get(zzArg(k))
		i, ok := m.find(k)
		if !ok || m.subs[i] != nil {
			zz.Assert(got == nil, "model/get-missing-or-bucket-is-nil")
		} else {
			zz.Assert(got != nil && zzSameBytes(got, m.vals[i]), "model/get")
		}
	case 2:
		zz.Reach("Delete")
		k := zzSymKey("delk")
		if zz.Choose(3) == 0 {
			k = []byte("pg")
		}
		err := b.Delete(zzArg(k))
		if roErr(err) {
			return
		}
		i, ok := m.find(k)
		if ok && m.subs[i] != nil {
			zz.Assert(err == berrors.ErrIncompatibleValue, "model/delete-bucket-key")
		} else {
			zz.Assert(err == nil, "model/delete")
			if ok {
				m.remove(i)
			}
		}
	case 3:
		zz.Reach("CreateBucket")
		name := zzSymKey("bname")
		nb, err := b.CreateBucket(zzArg(name))
		if roErr(err) {
			return
		}
		i, ok := m.find(name)
		switch {
		case ok && m.subs[i] != nil:
			zz.Assert(err == berrors.ErrBucketExists, "model/create-existing-nested")
		case ok:
			zz.Assert(err == berrors.ErrIncompatibleValue, "model/create-bucket-over-value")
		default:
			zz.Assert(err == nil && nb != nil, "model/create-nested")
			m.insert(i, name, nil, &zzMB{})
		}
	case 4:
		zz.Reach("DeleteBucket")
		name := []byte("pg")
		switch zz.Choose(3) {
		case 1:
			name = []byte("in")
		case 2:
			name = zzSymKey("dbname")
		}
		err := b.DeleteBucket(zzArg(name))
		if roErr(err) {
			return
		}
		i, ok := m.find(name)
		switch {
		case !ok:
			zz.Assert(err == berrors.ErrBucketNotFound, "model/delete-missing-nested")
		case m.subs[i] == nil:
			zz.Assert(err == berrors.ErrIncompatibleValue, "model/delete-bucket-on-value")
		default:
			zz.Assert(err == nil, "model/delete-nested")
			m.remove(i)
		}
	case 5:
		zz.Reach("NextSequence")
		s, err := b.NextSequence()
		if roErr(err) {
			return
		}
		m.seq++
		zz.Assert(err == nil && s == m.seq, "model/next-sequence")
	case 6:
		zz.Reach("SetSequence")
		v := zz.U64("seq")
		err := b.SetSequence(v)
		if roErr(err) {
			return
		}
		zz.Assert(err == nil, "model/set-sequence")
		m.seq = v
	case 7:
		zz.Reach("Sequence/KeyN")
		zz.Assert(b.Sequence() == m.seq, "model/sequence")
		n := 0
		err := b.ForEach(func(k, v []byte) error { n++; return nil })
		zz.Assert(err == nil && n == len(m.keys), "model/foreach-count")
	case 9:
		zz.Reach("DeleteAllKeys")
		// delete every plain key of the target (a paged bucket shrinks back to an inline one)
		for i := 0; i < len(m.keys); {
			if m.subs[i] != nil {
				i++
				continue
			}
			err := b.Delete(zzArg(m.keys[i]))
			if roErr(err) {
				return
			}
			zz.Assert(err == nil, "model/delete-all")
			m.remove(i)
		}
	case 8:
		zz.Reach("EmptyKey/LargeKey")
		if zz.Choose(2) == 0 {
			err := b.Put([]byte{}, []byte("v"))
			if roErr(err) {
				return
			}
			zz.Assert(err == berrors.ErrKeyRequired, "model/empty-key")
		} else {
			n := 32768 + zz.Choose(2)
			err := b.Put(zzVal(n, 'K'), []byte("v"))
			if roErr(err) {
				return
			}
			if n > 32768 {
				zz.Assert(err == berrors.ErrKeyTooLarge, "model/key-too-large")
			} else {
				zz.Assert(err == nil, "model/max-key")
				i, _ := m.find(zzVal(n, 'K'))
				m.insert(i, zzVal(n, 'K'), []byte("v"), nil)
			}
		}
	}
}

func HarnessModel() {
	c := zzConfig()
	path := zz.TempPath("model.db")
	db := zzMustOpen(path, c, "model")
	zzSetup(db, zz.Param("setup", 2))
	committed := zzModelOf(zzViewDump(db, "model/setup"))
	ntx := zz.Param("ntx", 1)
	slots := zz.Param("slots", 2)
	mask := zz.Param("ops", 0xff)
	for t := 0; t < ntx; t++ {
		writable := zz.Param("readonly", 0) == 0 || zz.Choose(2) == 0
		tx, err := db.Begin(writable)
		zz.Assert(err == nil, "model/begin")
		m := committed.clone()
		for s := 0; s < slots; s++ {
			zzModelOp(tx, m, writable, c.pageSize, mask)
		}
		// a write transaction reads its own writes
		var flat []zzKV
		m.flatten(0, &flat)
		zz.Assert(zzSameKVs(zzDump(tx), flat), "model/tx-reads-own-writes")
		if writable && zz.Choose(2) == 0 {
			zz.Reach("committed")
			zz.Assert(tx.Commit() == nil, "model/commit")
			committed = m
		} else {
			zz.Reach("rolled-back")
			zz.Assert(tx.Rollback() == nil, "model/rollback")
		}
		var cf []zzKV
		committed.flatten(0, &cf)
		zz.Assert(zzSameKVs(zzViewDump(db, "model/after-tx"), cf), "model/state-after-tx")
		if zz.Param("reopen", 1) == 1 {
			zz.Assert(db.Close() == nil, "model/close")
			db = zzMustOpen(path, c, "model/reopen")
			zz.Assert(zzSameKVs(zzViewDump(db, "model/after-reopen"), cf), "model/state-after-reopen")
		}
	}
	zzCheckAll(db, path, c, "model/final")
	zz.Assert(db.Close() == nil, "model/close2")
	zz.Reach("done")
}

// HarnessMove (C04): MoveBucket against the model, including source/destination buckets created in
// the same transaction, a moved bucket edited earlier in the transaction and a destination inside
// the moved bucket.
func HarnessMove() {
	c := zzConfig()
	path := zz.TempPath("move.db")
	db := zzMustOpen(path, c, "move")
	zzSetup(db, 2)
	err := db.Update(func(tx *Tx) error {
		d, err := tx.CreateBucket([]byte("dst"))
		if err != nil {
			return err
		}
		return d.Put([]byte("pgx"), []byte("plain value"))
	})
	zz.Assert(err == nil, "move/setup2")
	root := zzModelOf(zzViewDump(db, "move/setup"))
	tx, err := db.Begin(true)
	zz.Assert(err == nil, "move/begin")
	sub := func(m *zzMB, name string) *zzMB {
		i, ok := m.find([]byte(name))
		if !ok {
			return nil
		}
		return m.subs[i]
	}
	// optionally create fresh source/destination buckets in this transaction
	fresh := zz.Choose(2) == 1
	if fresh {
		zz.Reach("fresh-buckets")
		s1, err := tx.CreateBucket([]byte("s1"))
		zz.Assert(err == nil, "move/create-s1")
		c1, err := s1.CreateBucket([]byte("c1"))
		zz.Assert(err == nil, "move/create-c1")
		zz.Assert(c1.Put([]byte("x"), []byte("y")) == nil, "move/put-c1")
		_, err = tx.CreateBucket([]byte("d1"))
		zz.Assert(err == nil, "move/create-d1")
		ms1 := &zzMB{}
		mc1 := &zzMB{}
		mc1.insert(0, []byte("x"), []byte("y"), nil)
		ms1.insert(0, []byte("c1"), nil, mc1)
		i, _ := root.find([]byte("s1"))
		root.insert(i, []byte("s1"), nil, ms1)
		i, _ = root.find([]byte("d1"))
		root.insert(i, []byte("d1"), nil, &zzMB{})
	}
	type cand struct {
		name string
		b    *Bucket // nil = transaction root
		m    *zzMB
	}
	bB := tx.Bucket([]byte("b"))
	srcs := []cand{{"root", nil, root}, {"b", bB, sub(root, "b")}}
	dsts := []cand{{"root", nil, root}, {"b", bB, sub(root, "b")}, {"dst", tx.Bucket([]byte("dst")), sub(root, "dst")},
		{"b/pg", bB.Bucket([]byte("pg")), sub(sub(root, "b"), "pg")}}
	if fresh {
		srcs = append(srcs, cand{"s1", tx.Bucket([]byte("s1")), sub(root, "s1")})
		dsts = append(dsts, cand{"d1", tx.Bucket([]byte("d1")), sub(root, "d1")})
	}
	src := srcs[zz.Choose(len(srcs))]
	dst := dsts[zz.Choose(len(dsts))]
	children := []string{"pg", "in", "b", "c1", "k00", "nope", "pgx"}
	child := []byte(children[zz.Choose(len(children))])
	// optionally edit the bucket that is going to be moved, earlier in this transaction
	edited := false
	ci, cok := src.m.find(child)
	if cok && src.m.subs[ci] != nil && zz.Choose(2) == 1 {
		var cb *Bucket
		if src.b == nil {
			cb = tx.Bucket(child)
		} else {
			cb = src.b.Bucket(child)
		}
		if cb != nil {
			edited = true
			zz.Reach("moved-bucket-edited-before")
			zz.Assert(cb.Put([]byte("zz-edit"), []byte("e")) == nil, "move/edit")
			mm := src.m.subs[ci]
			j, _ := mm.find([]byte("zz-edit"))
			mm.insert(j, []byte("zz-edit"), []byte("e"), nil)
		}
	}
	if fresh && string(child) == "c1" {
		edited = true // created and filled in this very transaction
	}
	mchild := zzClone(child)
	merr := tx.MoveBucket(mchild, src.b, dst.b)
	for i := range mchild {
		mchild[i] = 0xEE
	}
	// model
	var moved *zzMB
	if cok {
		moved = src.m.subs[ci]
	}
	inside := false // destination is the moved bucket itself or lies inside it
	if moved != nil {
		var walk func(m *zzMB) bool
		walk = func(m *zzMB) bool {
			if m == dst.m {
				return true
			}
			for _, s := range m.subs {
				if s != nil && walk(s) {
					return true
				}
			}
			return false
		}
		inside = walk(moved)
	}
	di, dok := dst.m.find(child)
	switch {
	case !cok:
		zz.Assert(merr == berrors.ErrBucketNotFound, "move/missing-child")
	case moved == nil:
		zz.Assert(merr == berrors.ErrIncompatibleValue, "move/child-is-a-value")
	case src.m == dst.m:
		zz.Assert(merr == berrors.ErrSameBuckets, "move/same-bucket")
	case inside:
		zz.Reach("destination-inside-moved-bucket")
		zz.AssertUnless(merr != nil, true, "move/into-own-descendant-is-an-error", "C04/movebucket-into-own-descendant")
		if merr == nil {
			// known finding: the subtree vanishes; nothing further can be compared
			_ = tx.Rollback()
			_ = db.Close()
			return
		}
	case dok && dst.m.subs[di] != nil:
		zz.Assert(merr == berrors.ErrBucketExists, "move/exists-in-destination")
	case dok:
		zz.Assert(merr == berrors.ErrIncompatibleValue, "move/value-in-destination")
	default:
		zz.Reach("moved")
		zz.Assert(merr == nil, "move/succeeds")
		src.m.remove(ci)
		j, _ := dst.m.find(child)
		dst.m.insert(j, child, nil, moved)
	}
	var flat []zzKV
	root.flatten(0, &flat)
	zz.AssertUnless(zzSameKVs(zzDump(tx), flat), edited, "move/tx-state-equals-model", "C04/movebucket-loses-edits-of-moved-bucket")
	zz.Assert(tx.Commit() == nil, "move/commit")
	zz.AssertUnless(zzSameKVs(zzViewDump(db, "move/after"), flat), edited, "move/committed-state-equals-model", "C04/movebucket-loses-edits-of-moved-bucket")
	zzCheckAll(db, path, c, "move/final")
	zz.Assert(db.Close() == nil, "move/close")
	zz.Reach("done")
}
