package bbolt

// S-BATCH (C16): N caller goroutines call the real DB.Batch; every goroutine schedule at
// synchronisation-operation granularity within a preemption bound; the timer created by
// time.AfterFunc may fire at any scheduling point until stopped.

import (
	"errors"
	"time"

	zz "go.etcd.io/bbolt/internal/zzverif"
)

var zzErrOwn = []error{errors.New("own error of caller 0"), errors.New("own error of caller 1"), errors.New("own error of caller 2")}

func HarnessBatch() {
	c := zzConfig()
	path := zz.TempPath("batch.db")
	db := zzMustOpen(path, c, "batch")
	n := zz.Param("callers", 2)
	db.MaxBatchSize = zz.Param("maxbatch", 2)
	db.MaxBatchDelay = time.Duration(zz.Param("delayms", 10)) * time.Millisecond
	err := db.Update(func(tx *Tx) error {
		_, err := tx.CreateBucket([]byte("c"))
		return err
	})
	zz.Assert(err == nil, "batch/setup")
	// behaviour of each caller's function: 0 never fails, 1 fails on every invocation,
	// 2 fails on its first invocation only, 3 panics on its first invocation only
	modes := make([]int, n)
	calls := make([]int, n)
	for i := range modes {
		// symbolic: which callers fail or panic, and when, is decided by the solver at the branches
		m := int(zz.U8("mode"))
		zz.Assume(m < zz.Param("nmodes", 4))
		modes[i] = m
	}
	res := make([]error, n)
	done := make(chan int, n)
	for i := 0; i < n; i++ {
		i := i
		go func() {
			res[i] = db.Batch(func(tx *Tx) error {
				calls[i]++
				b := tx.Bucket([]byte("c"))
				key := []byte{'c', byte('0' + i)}
				cur := byte(0)
				if v := b.Get(key); v != nil {
					cur = v[0]
				}
				if err := b.Put(key, []byte{cur + 1}); err != nil { // not idempotent on purpose
					return err
				}
				switch modes[i] {
				case 2:
					if calls[i] == 1 {
						return zzErrOwn[i]
					}
				case 1:
					return zzErrOwn[i]
				case 3:
					if calls[i] == 1 {
						panic("caller function panics on its first invocation")
					}
				}
				return nil
			})
			done <- i
		}()
	}
	for i := 0; i < n; i++ {
		<-done
	}
	zz.Reach("all-callers-returned")
	// exactly-once: nil <=> counter == 1; an error is the caller's own and nothing of it is committed
	_ = db.View(func(tx *Tx) error {
		b := tx.Bucket([]byte("c"))
		for i := 0; i < n; i++ {
			cnt := 0
			if v := b.Get([]byte{'c', byte('0' + i)}); v != nil {
				cnt = int(v[0])
			}
			if res[i] == nil {
				zz.Reach("caller-succeeded")
				zz.Assert(cnt == 1, "batch/nil-means-committed-exactly-once")
				zz.Assert(modes[i] != 1, "batch/always-failing-function-cannot-succeed")
			} else {
				zz.Reach("caller-failed")
				zz.Assert(cnt == 0, "batch/error-means-nothing-committed")
				zz.Assert(res[i] == zzErrOwn[i], "batch/error-is-the-callers-own")
				zz.Assert(modes[i] == 1, "batch/only-an-always-failing-function-fails")
			}
		}
		return nil
	})
	zzLocksFree(db, "batch/locks", 0)
	zz.Assert(!zz.MutexHeld(&db.batchMu), "batch/batchMu-free")
	zz.Assert(db.Close() == nil, "batch/close")
	zz.Reach("done")
}
