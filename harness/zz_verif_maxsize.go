package bbolt

// K-MAXSIZE / D-MAXSIZE (C18): the data file never grows beyond MaxSize.

import (
	berrors "go.etcd.io/bbolt/errors"
	"go.etcd.io/bbolt/internal/common"
	zz "go.etcd.io/bbolt/internal/zzverif"
)

// HarnessMaxSizeKernel: the real DB.allocate (size-limit decision) followed by the real DB.grow call
// Commit makes, with symbolic MaxSize, AllocSize, map size, high-water mark and page count (no remap
// needed: minsz < datasz). If allocate accepts, grow must not extend the file beyond
// max(MaxSize, length at open).
func HarnessMaxSizeKernel() {
	c := zzConfig()
	path := zz.TempPath("maxk.db")
	db := zzMustOpen(path, c, "maxk")
	tx, err := db.Begin(true)
	zz.Assert(err == nil, "maxk/begin")
	ps := c.pageSize
	fileAtOpen := int(zz.FileSize(path))
	lim := 64 << 20
	maxSize := int(zz.U32("MaxSize"))
	allocSize := int(zz.U32("AllocSize"))
	mapped := int(zz.U32("mappedFor")) // the size the current map was computed for (file size or InitialMmapSize)
	zz.Assume(maxSize > 0 && maxSize <= lim && allocSize >= 0 && allocSize <= lim && mapped >= fileAtOpen && mapped <= lim)
	datasz, err := db.mmapSize(mapped) // the real function produces the map size
	zz.Assert(err == nil, "maxk/mmapSize")
	hwm := int(zz.U32("hwm"))
	count := 1 + zz.Choose(3)*7
	zz.Assume(hwm >= 4 && hwm*ps >= fileAtOpen-ps && (hwm+count+1)*ps < datasz && hwm < 1<<20) // end of file region, no remap needed
	db.MaxSize = maxSize
	db.AllocSize = allocSize
	db.datasz = datasz
	tx.meta.SetPgid(common.Pgid(hwm))
	for db.freelist.FreeCount() > 0 { // allocate from the end of the file, not from the free list
		db.freelist.Allocate(tx.meta.Txid(), 1)
	}
	zz.SymbolicTruncate(true)
	p, aerr := db.allocate(tx.meta.Txid(), count)
	if aerr != nil {
		zz.Reach("refused")
		zz.Assert(aerr == berrors.ErrMaxSizeReached && p == nil, "maxk/only-the-size-limit-error")
		zz.Assert(int(tx.meta.Pgid()) == hwm, "maxk/refusal-changes-nothing")
		return
	}
	zz.Reach("accepted")
	zz.Assert(int(tx.meta.Pgid()) == hwm+count, "maxk/hwm-advanced")
	gerr := db.grow(int(tx.meta.Pgid()+1) * ps) // exactly the call Tx.Commit makes
	zz.Assert(gerr == nil, "maxk/grow")
	sz, any := zz.LastTruncate()
	if any {
		zz.Reach("file-grown")
		bound := maxSize
		if fileAtOpen > bound {
			bound = fileAtOpen
		}
		zz.Assert(int(sz) <= bound, "maxk/file-never-longer-than-MaxSize")
	}
}

// HarnessMaxSize (DB-level): Open with a limit and an initial map size, large and small puts, reopen.
func HarnessMaxSize() {
	c := zzConfig()
	c.pageSize = 4096
	path := zz.TempPath("max.db")
	c.maxSize = []int{1 << 20, 1<<20 + 12345, 200 << 10}[zz.Choose(3)]
	c.initMmap = []int{0, 256 << 10, 8 << 20}[zz.Choose(3)]
	db := zzMustOpen(path, c, "max")
	atOpen := zz.FileSize(path)
	bound := int64(c.maxSize)
	if atOpen > bound {
		bound = atOpen
	}
	check := func(id string) { zz.Assert(zz.FileSize(path) <= bound, id) }
	// every write either succeeds or fails with the size-limit error and changes nothing
	step := func(id string, fn func(tx *Tx) error) bool {
		before := zzViewDump(db, id+"/before")
		err := db.Update(fn)
		check(id + "/file-within-limit")
		if err != nil {
			zz.Reach("size-limit-error")
			zz.Assert(err == berrors.ErrMaxSizeReached, id+"/the-size-limit-error")
			zz.Assert(zzSameKVs(zzViewDump(db, id+"/after-error"), before), id+"/error-leaves-state-untouched")
			zzLocksFree(db, id+"/after-error", 0)
			return false
		}
		return true
	}
	ok := step("max/setup", func(tx *Tx) error {
		_, err := tx.CreateBucket([]byte("b"))
		return err
	})
	if !ok {
		zz.Reach("limit-below-initial-map")
	} else {
		n := []int{30000, 300 << 10, 2 << 20}[zz.Choose(3)]
		if step("max/large-put", func(tx *Tx) error { return tx.Bucket([]byte("b")).Put([]byte("big"), zzVal(n, 'B')) }) {
			zz.Reach("large-put-fits")
		}
		step("max/small-put", func(tx *Tx) error { return tx.Bucket([]byte("b")).Put([]byte("small"), []byte("s")) })
	}
	zzCheckAll(db, path, c, "max/final")
	zz.Assert(db.Close() == nil, "max/close")
	db = zzMustOpen(path, c, "max/reopen")
	check("max/after-reopen")
	zz.Assert(db.Close() == nil, "max/close2")
	zz.Reach("done")
}

// HarnessMaxSizeSweep: page-granular growth (AllocSize 0) with the limit swept one page at a time, so
// that every allocation of a commit – including the last one, for the freelist page – is the one that
// hits the limit for some value. Every write either succeeds or fails with the size-limit error,
// changes nothing, leaves the accounting exact and all locks free.
func HarnessMaxSizeSweep() {
	c := zzConfig()
	path := zz.TempPath("sweep.db")
	k := zz.Choose(zz.Param("steps", 36))
	c.maxSize = (6 + k) * c.pageSize
	db := zzMustOpen(path, c, "sweep")
	db.AllocSize = 0
	atOpen := zz.FileSize(path)
	bound := int64(c.maxSize)
	if atOpen > bound {
		bound = atOpen
	}
	refused := 0
	step := func(id string, manual bool, fn func(tx *Tx) error) {
		before := zzViewDump(db, id+"/before")
		var err error
		if manual {
			// manually managed transaction: Commit itself must release everything on failure
			var tx *Tx
			tx, err = db.Begin(true)
			zz.Assert(err == nil, id+"/begin")
			if err = fn(tx); err == nil {
				err = tx.Commit()
			} else {
				_ = tx.Rollback()
			}
		} else {
			err = db.Update(fn)
		}
		zz.Assert(zz.FileSize(path) <= bound, id+"/file-within-limit")
		if err != nil {
			refused++
			zz.Reach("refused")
			zz.Assert(err == berrors.ErrMaxSizeReached, id+"/the-size-limit-error")
			zz.Assert(zzSameKVs(zzViewDump(db, id+"/after-error"), before), id+"/error-leaves-state-untouched")
		} else {
			zz.Reach("accepted")
		}
		zzLocksFree(db, id+"/locks", 0)
		zzCheckAll(db, path, c, id+"/accounting")
	}
	manual := zz.Choose(2) == 1
	step("sweep/create", manual, func(tx *Tx) error {
		b, err := tx.CreateBucketIfNotExists([]byte("b"))
		if err != nil {
			return err
		}
		for i := 0; i < 6; i++ {
			if err := b.Put([]byte{'k', byte('0' + i)}, zzVal(c.pageSize*3/10, byte('a'+i))); err != nil {
				return err
			}
		}
		return nil
	})
	step("sweep/second", manual, func(tx *Tx) error {
		b, err := tx.CreateBucketIfNotExists([]byte("b"))
		if err != nil {
			return err
		}
		if err := b.Put([]byte("k0"), zzVal(c.pageSize*3/10, 'Z')); err != nil {
			return err
		}
		return b.Put([]byte("m"), zzVal(c.pageSize*(1+zz.Choose(3)), 'M'))
	})
	step("sweep/third", manual, func(tx *Tx) error {
		b, err := tx.CreateBucketIfNotExists([]byte("b"))
		if err != nil {
			return err
		}
		return b.Put([]byte("z"), zzVal(c.pageSize*3/10, 'z'))
	})
	zz.Assert(db.Close() == nil, "sweep/close")
	db = zzMustOpen(path, c, "sweep/reopen")
	zzCheckAll(db, path, c, "sweep/reopened")
	zz.Assert(db.Close() == nil, "sweep/close2")
	zz.Reach("done")
}
