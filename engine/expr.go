package main

// Expression DAG over fixed-width bit-vectors and booleans.
// Width 0 = Bool sort; widths 1..64 = (_ BitVec w).

import (
	"fmt"
	"math/bits"
	"strings"
)

type Op uint8

const (
	OpConst Op = iota
	OpVar
	OpAdd
	OpSub
	OpMul
	OpUDiv
	OpURem
	OpSDiv
	OpSRem
	OpAnd
	OpOr
	OpXor
	OpNot
	OpNeg
	OpShl
	OpLShr
	OpAShr
	OpExtract // k = hi<<8 | lo
	OpConcat  // a high, b low
	OpZExt
	OpSExt
	OpIte // a cond(bool) b c
	// boolean results
	OpEq
	OpUlt
	OpUle
	OpSlt
	OpSle
	OpBAnd
	OpBOr
	OpBNot
	OpBConst // k = 0/1
)

var opNames = map[Op]string{OpAdd: "bvadd", OpSub: "bvsub", OpMul: "bvmul", OpUDiv: "bvudiv", OpURem: "bvurem",
	OpSDiv: "bvsdiv", OpSRem: "bvsrem", OpAnd: "bvand", OpOr: "bvor", OpXor: "bvxor", OpNot: "bvnot", OpNeg: "bvneg",
	OpShl: "bvshl", OpLShr: "bvlshr", OpAShr: "bvashr", OpConcat: "concat", OpIte: "ite", OpEq: "=", OpUlt: "bvult",
	OpUle: "bvule", OpSlt: "bvslt", OpSle: "bvsle", OpBAnd: "and", OpBOr: "or", OpBNot: "not"}

type Node struct {
	op      Op
	w       uint8
	a, b, c *Node
	k       uint64
	id      int32
}

type nodeKey struct {
	op      Op
	w       uint8
	a, b, c int32
	k       uint64
}

// Pool is a per-run hash-consing table.
type Pool struct {
	tab   map[nodeKey]*Node
	nodes []*Node
	vars  []*Node // by variable index (k)
	names []string
	tt    *Node
	ff    *Node
}

func NewPool() *Pool {
	p := &Pool{tab: make(map[nodeKey]*Node, 1024)}
	p.tt = p.mk(OpBConst, 0, nil, nil, nil, 1)
	p.ff = p.mk(OpBConst, 0, nil, nil, nil, 0)
	return p
}

func nid(n *Node) int32 {
	if n == nil {
		return -1
	}
	return n.id
}

func (p *Pool) mk(op Op, w uint8, a, b, c *Node, k uint64) *Node {
	key := nodeKey{op, w, nid(a), nid(b), nid(c), k}
	if n, ok := p.tab[key]; ok {
		return n
	}
	n := &Node{op: op, w: w, a: a, b: b, c: c, k: k, id: int32(len(p.nodes))}
	p.nodes = append(p.nodes, n)
	p.tab[key] = n
	return n
}

func mask(w uint8) uint64 {
	if w >= 64 {
		return ^uint64(0)
	}
	return (uint64(1) << w) - 1
}

func sext64(v uint64, w uint8) int64 {
	if w >= 64 {
		return int64(v)
	}
	sh := 64 - uint(w)
	return int64(v<<sh) >> sh
}

func (p *Pool) Const(w uint8, v uint64) *Node { return p.mk(OpConst, w, nil, nil, nil, v&mask(w)) }
func (p *Pool) Bool(b bool) *Node {
	if b {
		return p.tt
	}
	return p.ff
}

func (p *Pool) Var(w uint8, name string) *Node {
	idx := len(p.vars)
	n := p.mk(OpVar, w, nil, nil, nil, uint64(idx))
	p.vars = append(p.vars, n)
	p.names = append(p.names, name)
	return n
}

func (n *Node) isConst() bool  { return n.op == OpConst }
func (n *Node) isBConst() bool { return n.op == OpBConst }

func evalBin(op Op, w uint8, x, y uint64) uint64 {
	m := mask(w)
	switch op {
	case OpAdd:
		return (x + y) & m
	case OpSub:
		return (x - y) & m
	case OpMul:
		return (x * y) & m
	case OpUDiv:
		if y == 0 {
			return m
		}
		return x / y
	case OpURem:
		if y == 0 {
			return x
		}
		return x % y
	case OpSDiv:
		sx, sy := sext64(x, w), sext64(y, w)
		if sy == 0 {
			if sx < 0 {
				return 1
			}
			return m
		}
		if sy == -1 {
			return uint64(-sx) & m
		}
		return uint64(sx/sy) & m
	case OpSRem:
		sx, sy := sext64(x, w), sext64(y, w)
		if sy == 0 {
			return x
		}
		if sy == -1 {
			return 0
		}
		return uint64(sx%sy) & m
	case OpAnd:
		return x & y
	case OpOr:
		return x | y
	case OpXor:
		return x ^ y
	case OpShl:
		if y >= uint64(w) {
			return 0
		}
		return (x << y) & m
	case OpLShr:
		if y >= uint64(w) {
			return 0
		}
		return x >> y
	case OpAShr:
		sx := sext64(x, w)
		if y >= uint64(w) {
			if sx < 0 {
				return m
			}
			return 0
		}
		return uint64(sx>>y) & m
	}
	panic("evalBin")
}

func evalCmp(op Op, w uint8, x, y uint64) bool {
	switch op {
	case OpEq:
		return x == y
	case OpUlt:
		return x < y
	case OpUle:
		return x <= y
	case OpSlt:
		return sext64(x, w) < sext64(y, w)
	case OpSle:
		return sext64(x, w) <= sext64(y, w)
	}
	panic("evalCmp")
}

// Bin builds a binary bit-vector operation with local simplification.
func (p *Pool) Bin(op Op, a, b *Node) *Node {
	w := a.w
	if a.w != b.w {
		panic(fmt.Sprintf("width mismatch %v: %d vs %d", op, a.w, b.w))
	}
	if a.isConst() && b.isConst() {
		return p.Const(w, evalBin(op, w, a.k, b.k))
	}
	switch op {
	case OpAdd:
		if a.isConst() && a.k == 0 {
			return b
		}
		if b.isConst() && b.k == 0 {
			return a
		}
		if a.isConst() { // canonical: const on the right
			a, b = b, a
		}
		// (x + c1) + c2
		if b.isConst() && a.op == OpAdd && a.b.isConst() {
			return p.Bin(OpAdd, a.a, p.Const(w, a.b.k+b.k))
		}
	case OpSub:
		if b.isConst() && b.k == 0 {
			return a
		}
		if a == b {
			return p.Const(w, 0)
		}
		if b.isConst() {
			return p.Bin(OpAdd, a, p.Const(w, -b.k))
		}
	case OpMul:
		if a.isConst() {
			a, b = b, a
		}
		if b.isConst() {
			if b.k == 0 {
				return b
			}
			if b.k == 1 {
				return a
			}
		}
	case OpAnd:
		if a.isConst() {
			a, b = b, a
		}
		if b.isConst() {
			if b.k == 0 {
				return b
			}
			if b.k == mask(w) {
				return a
			}
		}
		if a == b {
			return a
		}
	case OpOr:
		if a.isConst() {
			a, b = b, a
		}
		if b.isConst() {
			if b.k == 0 {
				return a
			}
			if b.k == mask(w) {
				return b
			}
		}
		if a == b {
			return a
		}
	case OpXor:
		if a.isConst() {
			a, b = b, a
		}
		if b.isConst() && b.k == 0 {
			return a
		}
		if a == b {
			return p.Const(w, 0)
		}
	case OpShl, OpLShr, OpAShr:
		if b.isConst() && b.k == 0 {
			return a
		}
		if b.isConst() && b.k >= uint64(w) && op != OpAShr {
			return p.Const(w, 0)
		}
		// byte-aligned shifts of zero-extended / concatenated values: rewrite as concat/extract
		if b.isConst() && op == OpShl {
			s := uint8(b.k)
			return p.Concat(p.Extract(a, w-s-1, 0), p.Const(s, 0))
		}
		if b.isConst() && op == OpLShr {
			s := uint8(b.k)
			return p.ZExt(p.Extract(a, w-1, s), w)
		}
	case OpUDiv, OpURem:
		if b.isConst() && b.k != 0 && bits.OnesCount64(b.k) == 1 {
			s := uint8(bits.TrailingZeros64(b.k))
			if op == OpUDiv {
				if s == 0 {
					return a
				}
				return p.ZExt(p.Extract(a, w-1, s), w)
			}
			if s == 0 {
				return p.Const(w, 0)
			}
			return p.ZExt(p.Extract(a, s-1, 0), w)
		}
	}
	return p.mk(op, w, a, b, nil, 0)
}

func (p *Pool) Not(a *Node) *Node {
	if a.isConst() {
		return p.Const(a.w, ^a.k)
	}
	if a.op == OpNot {
		return a.a
	}
	return p.mk(OpNot, a.w, a, nil, nil, 0)
}

func (p *Pool) Neg(a *Node) *Node {
	if a.isConst() {
		return p.Const(a.w, -a.k)
	}
	return p.mk(OpNeg, a.w, a, nil, nil, 0)
}

func (p *Pool) Extract(a *Node, hi, lo uint8) *Node {
	if lo == 0 && hi == a.w-1 {
		return a
	}
	w := hi - lo + 1
	switch a.op {
	case OpConst:
		return p.Const(w, a.k>>lo)
	case OpExtract:
		alo := uint8(a.k & 0xff)
		return p.Extract(a.a, hi+alo, lo+alo)
	case OpConcat:
		lw := a.b.w
		if hi < lw {
			return p.Extract(a.b, hi, lo)
		}
		if lo >= lw {
			return p.Extract(a.a, hi-lw, lo-lw)
		}
		return p.Concat(p.Extract(a.a, hi-lw, 0), p.Extract(a.b, lw-1, lo))
	case OpZExt:
		iw := a.a.w
		if hi < iw {
			return p.Extract(a.a, hi, lo)
		}
		if lo >= iw {
			return p.Const(w, 0)
		}
		return p.Concat(p.Const(hi-iw+1, 0), p.Extract(a.a, iw-1, lo))
	case OpSExt:
		iw := a.a.w
		if hi < iw {
			return p.Extract(a.a, hi, lo)
		}
	case OpIte:
		if a.b.isConst() && a.c.isConst() {
			return p.Ite(a.a, p.Extract(a.b, hi, lo), p.Extract(a.c, hi, lo))
		}
	case OpAnd, OpOr, OpXor:
		if a.b.isConst() {
			return p.Bin(a.op, p.Extract(a.a, hi, lo), p.Extract(a.b, hi, lo))
		}
	}
	return p.mk(OpExtract, w, a, nil, nil, uint64(hi)<<8|uint64(lo))
}

func (p *Pool) Concat(a, b *Node) *Node {
	w := a.w + b.w
	if a.isConst() && b.isConst() {
		return p.Const(w, a.k<<b.w|b.k)
	}
	// concat(extract(x,h,m+1), extract(x,m,l)) -> extract(x,h,l)
	if a.op == OpExtract && b.op == OpExtract && a.a == b.a {
		alo := uint8(a.k & 0xff)
		bhi := uint8(b.k >> 8)
		if alo == bhi+1 {
			return p.Extract(a.a, uint8(a.k>>8), uint8(b.k&0xff))
		}
	}
	// concat(0, x) -> zext
	if a.isConst() && a.k == 0 {
		return p.ZExt(b, w)
	}
	// concat(a, concat(b1,b2)) with a,b1 foldable
	if b.op == OpConcat {
		if ab := p.Concat(a, b.a); ab.op != OpConcat || (a.isConst() && b.a.isConst()) {
			return p.Concat(ab, b.b)
		}
	}
	return p.mk(OpConcat, w, a, b, nil, 0)
}

func (p *Pool) ZExt(a *Node, w uint8) *Node {
	if a.w == w {
		return a
	}
	if a.w > w {
		return p.Extract(a, w-1, 0)
	}
	if a.isConst() {
		return p.Const(w, a.k)
	}
	if a.op == OpZExt {
		return p.ZExt(a.a, w)
	}
	return p.mk(OpZExt, w, a, nil, nil, 0)
}

func (p *Pool) SExt(a *Node, w uint8) *Node {
	if a.w == w {
		return a
	}
	if a.w > w {
		return p.Extract(a, w-1, 0)
	}
	if a.isConst() {
		return p.Const(w, uint64(sext64(a.k, a.w)))
	}
	if a.op == OpZExt { // zero-extended value is non-negative
		return p.ZExt(a.a, w)
	}
	return p.mk(OpSExt, w, a, nil, nil, 0)
}

func (p *Pool) Ite(c, a, b *Node) *Node {
	if c.isBConst() {
		if c.k == 1 {
			return a
		}
		return b
	}
	if a == b {
		return a
	}
	if a.w == 0 { // boolean ite
		return p.BOr(p.BAnd(c, a), p.BAnd(p.BNot(c), b))
	}
	return p.mk(OpIte, a.w, c, a, b, 0)
}

func (p *Pool) Cmp(op Op, a, b *Node) *Node {
	if a.w != b.w {
		panic(fmt.Sprintf("cmp width mismatch %d vs %d", a.w, b.w))
	}
	if a.isConst() && b.isConst() {
		return p.Bool(evalCmp(op, a.w, a.k, b.k))
	}
	if a == b {
		return p.Bool(op == OpEq || op == OpUle || op == OpSle)
	}
	if op == OpEq {
		if a.isConst() {
			a, b = b, a
		}
		if b.isConst() {
			// ite(c, k1, k2) == k
			if a.op == OpIte && a.b.isConst() && a.c.isConst() {
				tb, fb := a.b.k == b.k, a.c.k == b.k
				switch {
				case tb && fb:
					return p.tt
				case tb:
					return a.a
				case fb:
					return p.BNot(a.a)
				default:
					return p.ff
				}
			}
			if a.op == OpZExt {
				if b.k > mask(a.a.w) {
					return p.ff
				}
				return p.Cmp(OpEq, a.a, p.Const(a.a.w, b.k))
			}
			if a.op == OpConcat {
				lw := a.b.w
				return p.BAnd(p.Cmp(OpEq, a.a, p.Const(a.a.w, b.k>>lw)), p.Cmp(OpEq, a.b, p.Const(lw, b.k)))
			}
		}
		if a.id > b.id && !b.isConst() {
			a, b = b, a
		}
	}
	if op == OpUlt && b.isConst() && b.k == 0 {
		return p.ff
	}
	if op == OpUle && a.isConst() && a.k == 0 {
		return p.tt
	}
	// unsigned comparisons of zero-extended operands
	if (op == OpUlt || op == OpUle) && a.op == OpZExt && b.isConst() {
		if b.k > mask(a.a.w) {
			return p.tt
		}
		return p.Cmp(op, a.a, p.Const(a.a.w, b.k))
	}
	return p.mk(op, 0, a, b, nil, 0)
}

func (p *Pool) BNot(a *Node) *Node {
	if a.isBConst() {
		return p.Bool(a.k == 0)
	}
	if a.op == OpBNot {
		return a.a
	}
	return p.mk(OpBNot, 0, a, nil, nil, 0)
}

func (p *Pool) BAnd(a, b *Node) *Node {
	if a.isBConst() {
		if a.k == 1 {
			return b
		}
		return a
	}
	if b.isBConst() {
		if b.k == 1 {
			return a
		}
		return b
	}
	if a == b {
		return a
	}
	return p.mk(OpBAnd, 0, a, b, nil, 0)
}

func (p *Pool) BOr(a, b *Node) *Node {
	if a.isBConst() {
		if a.k == 1 {
			return a
		}
		return b
	}
	if b.isBConst() {
		if b.k == 1 {
			return b
		}
		return a
	}
	if a == b {
		return a
	}
	return p.mk(OpBOr, 0, a, b, nil, 0)
}

// Eval evaluates n under model m (variable index -> value; missing = 0).
func (p *Pool) Eval(n *Node, m []uint64) uint64 {
	memo := make(map[int32]uint64, 32)
	return p.eval(n, m, memo)
}

func (p *Pool) eval(n *Node, m []uint64, memo map[int32]uint64) uint64 {
	switch n.op {
	case OpConst, OpBConst:
		return n.k
	case OpVar:
		if int(n.k) < len(m) {
			return m[n.k] & mask(n.w)
		}
		return 0
	}
	if v, ok := memo[n.id]; ok {
		return v
	}
	var r uint64
	switch n.op {
	case OpNot:
		r = ^p.eval(n.a, m, memo) & mask(n.w)
	case OpNeg:
		r = -p.eval(n.a, m, memo) & mask(n.w)
	case OpExtract:
		hi, lo := uint8(n.k>>8), uint8(n.k&0xff)
		r = (p.eval(n.a, m, memo) >> lo) & mask(hi-lo+1)
	case OpConcat:
		r = p.eval(n.a, m, memo)<<n.b.w | p.eval(n.b, m, memo)
	case OpZExt:
		r = p.eval(n.a, m, memo)
	case OpSExt:
		r = uint64(sext64(p.eval(n.a, m, memo), n.a.w)) & mask(n.w)
	case OpIte:
		if p.eval(n.a, m, memo) != 0 {
			r = p.eval(n.b, m, memo)
		} else {
			r = p.eval(n.c, m, memo)
		}
	case OpEq, OpUlt, OpUle, OpSlt, OpSle:
		if evalCmp(n.op, n.a.w, p.eval(n.a, m, memo), p.eval(n.b, m, memo)) {
			r = 1
		}
	case OpBAnd:
		if p.eval(n.a, m, memo) != 0 && p.eval(n.b, m, memo) != 0 {
			r = 1
		}
	case OpBOr:
		if p.eval(n.a, m, memo) != 0 || p.eval(n.b, m, memo) != 0 {
			r = 1
		}
	case OpBNot:
		if p.eval(n.a, m, memo) == 0 {
			r = 1
		}
	default:
		r = evalBin(n.op, n.w, p.eval(n.a, m, memo), p.eval(n.b, m, memo))
	}
	memo[n.id] = r
	return r
}

func sortStr(w uint8) string {
	if w == 0 {
		return "Bool"
	}
	return fmt.Sprintf("(_ BitVec %d)", w)
}

func constStr(w uint8, k uint64) string {
	if w%4 == 0 {
		return fmt.Sprintf("#x%0*x", int(w/4), k)
	}
	return fmt.Sprintf("#b%0*b", int(w), k)
}

// smtBody renders the defining term of n, referring to children by name.
func (n *Node) smtBody() string {
	r := func(c *Node) string { return c.ref() }
	switch n.op {
	case OpNot, OpNeg, OpBNot:
		return "(" + opNames[n.op] + " " + r(n.a) + ")"
	case OpExtract:
		return fmt.Sprintf("((_ extract %d %d) %s)", n.k>>8, n.k&0xff, r(n.a))
	case OpZExt:
		return fmt.Sprintf("((_ zero_extend %d) %s)", n.w-n.a.w, r(n.a))
	case OpSExt:
		return fmt.Sprintf("((_ sign_extend %d) %s)", n.w-n.a.w, r(n.a))
	case OpIte:
		return "(ite " + r(n.a) + " " + r(n.b) + " " + r(n.c) + ")"
	default:
		return "(" + opNames[n.op] + " " + r(n.a) + " " + r(n.b) + ")"
	}
}

func (n *Node) ref() string {
	switch n.op {
	case OpConst:
		return constStr(n.w, n.k)
	case OpBConst:
		if n.k == 1 {
			return "true"
		}
		return "false"
	case OpVar:
		return fmt.Sprintf("v%d", n.k)
	}
	return fmt.Sprintf("n%d", n.id)
}

// String renders a node as a nested term (debugging / samples); depth-limited.
func (n *Node) String() string {
	var sb strings.Builder
	n.str(&sb, 6)
	return sb.String()
}

func (n *Node) str(sb *strings.Builder, d int) {
	switch n.op {
	case OpConst, OpBConst, OpVar:
		sb.WriteString(n.ref())
		return
	}
	if d == 0 {
		sb.WriteString("…")
		return
	}
	sb.WriteString("(")
	switch n.op {
	case OpExtract:
		fmt.Fprintf(sb, "extract[%d:%d]", n.k>>8, n.k&0xff)
	case OpZExt:
		fmt.Fprintf(sb, "zext%d", n.w)
	case OpSExt:
		fmt.Fprintf(sb, "sext%d", n.w)
	default:
		sb.WriteString(opNames[n.op])
	}
	for _, c := range []*Node{n.a, n.b, n.c} {
		if c != nil {
			sb.WriteString(" ")
			c.str(sb, d-1)
		}
	}
	sb.WriteString(")")
}
