package bbolt

// D-CRASH (C01): the machine dies at any I/O event of a symbolic history; any sector-subset of the
// unsynced writes survives; the real Open must recover the last acknowledged state or, atomically,
// the in-flight one; the recovered database checks clean and accepts further transactions.

import (
	zz "go.etcd.io/bbolt/internal/zzverif"
)

func HarnessCrash() {
	c := zzConfig()
	path := zz.TempPath("crash.db")
	db := zzMustOpen(path, c, "crash")
	zzSetup(db, zz.Param("setup", 1))
	ntx := zz.Param("ntx", 1)
	m1 := zz.Param("ops1", 0x0b)
	withReader := zz.Param("reader", 0) == 1 && zz.Choose(2) == 1
	if withReader {
		// a reader of the setup state stays open (its pages stay pending in later commits)
		_, err := db.Begin(false)
		zz.Assert(err == nil, "crash/reader")
	}
	acked := zzViewDump(db, "crash/acked0")
	var inflight []zzKV
	var inflightTxid uint64
	inFlight := false // a commit was started and not yet acknowledged
	closing := false
	flip := zz.Param("flip", 0) == 1
	crashed := zz.RunUntilCrash(func() {
		if flip && !withReader {
			// the file was written under one freelist-sync setting and is reopened under the other one
			// inside the crash region: reopening a no-sync file in sync mode commits a rebuilt free list
			zz.Assert(db.Close() == nil, "crash/close-before-flip")
			c.noFLSync = !c.noFLSync
			var err error
			db, err = Open(path, 0600, c.options())
			zz.Assert(err == nil, "crash/reopen-flipped")
			zz.Reach("reopened-flipped")
		}
		for t := 0; t < ntx; t++ {
			tx, err := db.Begin(true)
			zz.Assert(err == nil, "crash/begin")
			opErr := zzOp(tx, m1)
			if opErr != nil {
				_ = tx.Rollback()
				continue
			}
			inflight = zzDump(tx)
			inflightTxid = uint64(tx.ID())
			inFlight = true
			err = tx.Commit()
			zz.Assert(err == nil, "crash/commit")
			acked = inflight
			inflight = nil
			inFlight = false
			zz.Reach("commit-acknowledged")
		}
		if !withReader && zz.Param("close", 1) == 1 {
			closing = true
			zz.Assert(db.Close() == nil, "crash/close")
		}
	})
	_ = closing
	if !crashed {
		zz.Reach("no-crash")
		return
	}
	// ---- recovery
	// which meta did the crash leave? (independent decoder on the crash image; reading the two meta
	// sectors resolves only their survival, exactly what Open reads first)
	fv := zz.FileView(path)
	cm0, cm1 := zzReadMeta(fv, 0), zzReadMeta(fv, c.pageSize)
	zz.Assert(cm0.ok || cm1.ok, "crash/a-valid-meta-survives")
	newestTxid := uint64(0)
	if cm0.ok {
		newestTxid = cm0.txid
	}
	if cm1.ok && cm1.txid > newestTxid {
		newestTxid = cm1.txid
	}
	inflightMetaPersisted := inFlight && newestTxid == inflightTxid
	db2, err := Open(path, 0600, c.options())
	zz.Assert(err == nil, "crash/recovery-open-succeeds")
	if err != nil {
		return
	}
	got := zzViewDump(db2, "crash/recovered")
	isAcked := zzSameKVs(got, acked)
	if inFlight {
		zz.Reach("crash-with-commit-in-flight")
		zz.Assert(zz.Or(isAcked, zzSameKVs(got, inflight)), "crash/recovered-is-acknowledged-or-inflight-state")
		// ... the in-flight state iff its meta page was completely persisted
		if inflightMetaPersisted {
			zz.Reach("inflight-meta-persisted")
			zz.Assert(zzSameKVs(got, inflight), "crash/inflight-meta-persisted-so-inflight-state")
		} else {
			zz.Assert(isAcked, "crash/inflight-meta-not-persisted-so-acknowledged-state")
		}
	} else {
		zz.Assert(isAcked, "crash/recovered-is-last-acknowledged-state")
	}
	zzCheckAll(db2, path, c, "crash/recovered")
	// the recovered database accepts further transactions
	err = db2.Update(func(tx *Tx) error {
		b, err := tx.CreateBucketIfNotExists([]byte("after"))
		if err != nil {
			return err
		}
		return b.Put([]byte("x"), zzVal(c.pageSize*3/10, 'A'))
	})
	zz.Assert(err == nil, "crash/update-after-recovery")
	zzCheckAll(db2, path, c, "crash/after-followup")
	zz.Assert(db2.Close() == nil, "crash/close2")
	zz.Reach("done")
}
