package main

import (
	"fmt"
	"go/token"
	"go/types"
	"strings"

	"golang.org/x/tools/go/ssa"
)

const (
	tokLAND = token.LAND
	tokLOR  = token.LOR
	tokADD  = token.ADD
	tokSUB  = token.SUB
	tokEQL  = token.EQL
)

var emptyIfaceT = types.NewInterfaceType(nil, nil)

// ifaceArgs reads a []interface{} slice.
func (r *Run) ifaceArgs(s Slice) []Iface {
	out := make([]Iface, 0, s.Len)
	for i := int64(0); i < s.Len; i++ {
		v := r.load(s.O, s.Off+16*i, emptyIfaceT)
		out = append(out, v.(Iface))
	}
	return out
}

func (r *Run) nativeArg(fr *frame, a Iface) interface{} {
	if a.T == nil {
		return nil
	}
	// error / Stringer first
	if _, isPtr := a.V.(Ptr); isPtr || true {
		if r.implements(a.T, errorType.Underlying().(*types.Interface)) {
			if s, ok := r.callStringMethod(fr, a, "Error"); ok {
				return fmtString(s)
			}
		}
	}
	switch v := a.V.(type) {
	case Int:
		if v.N != nil {
			return fmtString("<sym>")
		}
		if v.P != nil {
			return fmtString(fmt.Sprintf("0x%x+obj%d", v.C, v.P.ID))
		}
		if v.W == 1 {
			return v.C != 0
		}
		if isSigned(a.T) {
			return sext64(v.C, v.W)
		}
		return v.C
	case Str:
		if v.N != nil {
			b := []byte(v.S)
			for i, n := range v.N {
				if n != nil {
					b[i] = '?'
				}
			}
			return string(b)
		}
		return v.S
	case Float:
		return v.F
	case Slice:
		if st, ok := a.T.Underlying().(*types.Slice); ok {
			if eb, ok := st.Elem().Underlying().(*types.Basic); ok && eb.Kind() == types.Byte {
				if v.O == nil || v.Len > 1<<16 {
					return []byte(nil)
				}
				c, sy := r.sliceBytes(v)
				for i := range sy {
					if sy[i] != nil {
						c[i] = '?'
					}
				}
				return c
			}
		}
		return fmtString(fmt.Sprintf("<slice len %d>", v.Len))
	case Ptr:
		if v.O == nil {
			return fmtString("<nil>")
		}
		return fmtString(fmt.Sprintf("&obj%d+%d", v.O.ID, v.Off))
	}
	return fmtString(fmt.Sprintf("<%v>", a.T))
}

// fmtString prints itself for every verb.
type fmtString string

func (s fmtString) Format(f fmt.State, verb rune) { f.Write([]byte(s)) }

func (r *Run) callStringMethod(fr *frame, a Iface, name string) (res string, ok bool) {
	ms := r.P.prog.MethodSets.MethodSet(a.T)
	var sel *types.Selection
	for i := 0; i < ms.Len(); i++ {
		if ms.At(i).Obj().Name() == name {
			sel = ms.At(i)
			break
		}
	}
	if sel == nil {
		return "", false
	}
	f := r.P.prog.MethodValue(sel)
	if f == nil {
		return "", false
	}
	v := r.call(fr, f, []Value{a.V}, 0)
	if s, isS := v.(Str); isS {
		b := []byte(s.S)
		for i, n := range s.N {
			if n != nil {
				b[i] = '?'
			}
		}
		return string(b), true
	}
	return "", false
}

func (r *Run) sprintf(fr *frame, format string, args Slice) string {
	ia := r.ifaceArgs(args)
	na := make([]interface{}, len(ia))
	for i, a := range ia {
		na[i] = r.nativeArg(fr, a)
	}
	format = strings.ReplaceAll(format, "%w", "%v")
	return fmt.Sprintf(format, na...)
}

func (r *Run) sprint(fr *frame, args Slice, sep string) string {
	ia := r.ifaceArgs(args)
	var parts []string
	for _, a := range ia {
		parts = append(parts, fmt.Sprint(r.nativeArg(fr, a)))
	}
	return strings.Join(parts, sep)
}

// makeError builds a *fmt.wrapError (if wrapped != nil) or *errors.errorString value.
func (r *Run) makeError(msg string, wrapped Value) Value {
	P := r.P
	if wrapped != nil && P.wrapErrT != nil {
		o := r.newObj(sizeof(P.wrapErrT), "fmt.wrapError")
		st := P.wrapErrT.Underlying().(*types.Struct)
		offs := fieldOffsets(P.wrapErrT)
		r.store(o, offs[0], st.Field(0).Type(), Str{S: msg})
		r.store(o, offs[1], st.Field(1).Type(), wrapped)
		return Iface{T: types.NewPointer(P.wrapErrT), V: Ptr{O: o}}
	}
	o := r.newObj(sizeof(P.errStrT), "errors.errorString")
	r.store(o, 0, types.Typ[types.String], Str{S: msg})
	return Iface{T: P.errStrPtr, V: Ptr{O: o}}
}

func (r *Run) bytesToSlice(b []byte) Slice {
	o := r.newObj(int64(len(b)), "bytes")
	o.ensure(int64(len(b)))
	copy(o.B, b)
	return Slice{O: o, Len: int64(len(b)), Cap: int64(len(b))}
}

// writeTo calls w.Write([]byte(s)) on an io.Writer value.
func (r *Run) writeTo(fr *frame, w Iface, s string) Value {
	if w.T == nil {
		r.goPanicStr("runtime error: invalid memory address or nil pointer dereference (nil io.Writer)")
	}
	ms := r.P.prog.MethodSets.MethodSet(w.T)
	var f *ssa.Function
	for i := 0; i < ms.Len(); i++ {
		if ms.At(i).Obj().Name() == "Write" {
			f = r.P.prog.MethodValue(ms.At(i))
		}
	}
	if f == nil {
		unsupported("Write method not found on %v", w.T)
	}
	return r.call(fr, f, []Value{w.V, r.bytesToSlice([]byte(s))}, fr.pos)
}

// callMethodIfAny calls method name (no args) on the dynamic value if its type has it.
func (r *Run) callMethodIfAny(fr *frame, a Iface, name string, args ...Value) (Value, bool) {
	ms := r.P.prog.MethodSets.MethodSet(a.T)
	for i := 0; i < ms.Len(); i++ {
		if ms.At(i).Obj().Name() == name {
			f := r.P.prog.MethodValue(ms.At(i))
			if f == nil {
				return nil, false
			}
			return r.call(fr, f, append([]Value{a.V}, args...), fr.pos), true
		}
	}
	return nil, false
}

func (r *Run) errorsIs(fr *frame, err, target Iface, depth int) bool {
	if err.T == nil || target.T == nil {
		return err.T == nil && target.T == nil
	}
	if depth > 50 {
		return false
	}
	for {
		if types.Identical(err.T, target.T) && types.Comparable(err.T) {
			e := r.valEq(err.T, err.V, target.V)
			eq := e.C != 0
			if e.N != nil {
				eq = r.branch(e.N, fr)
			}
			if eq {
				return true
			}
		}
		if v, ok := r.callMethodIfAny(fr, err, "Is", target); ok {
			if b, isB := v.(Int); isB && b.W == 1 && b.N == nil && b.C != 0 {
				return true
			}
		}
		v, ok := r.callMethodIfAny(fr, err, "Unwrap")
		if !ok {
			return false
		}
		switch u := v.(type) {
		case Iface:
			if u.T == nil {
				return false
			}
			err = u
		case Slice:
			for i := int64(0); i < u.Len; i++ {
				e := r.load(u.O, u.Off+16*i, errorType).(Iface)
				if r.errorsIs(fr, e, target, depth+1) {
					return true
				}
			}
			return false
		default:
			return false
		}
	}
}
