package command

// CLI-level harnesses (C15 tool, C19 tool, C20): the command functions are called directly
// (no cobra flag parsing).

import (
	"bytes"

	"github.com/spf13/cobra"

	bolt "go.etcd.io/bbolt"
	"go.etcd.io/bbolt/internal/guts_cli"
	zz "go.etcd.io/bbolt/internal/zzverif"
)

func zzVal(n int, fill byte) []byte {
	v := make([]byte, n)
	for i := range v {
		v[i] = fill
	}
	return v
}

type zzItem struct {
	depth  int
	bucket bool
	end    bool
	seq    uint64
	k, v   []byte
}

func zzDumpB(b *bolt.Bucket, depth int, out *[]zzItem) {
	_ = b.ForEach(func(k, v []byte) error {
		if v == nil {
			nb := b.Bucket(k)
			*out = append(*out, zzItem{depth: depth, bucket: true, seq: nb.Sequence(), k: append([]byte{}, k...)})
			zzDumpB(nb, depth+1, out)
			*out = append(*out, zzItem{depth: depth, end: true})
		} else {
			*out = append(*out, zzItem{depth: depth, k: append([]byte{}, k...), v: append([]byte{}, v...)})
		}
		return nil
	})
}

func zzDump(db *bolt.DB) []zzItem {
	var out []zzItem
	_ = db.View(func(tx *bolt.Tx) error {
		return tx.ForEach(func(name []byte, b *bolt.Bucket) error {
			out = append(out, zzItem{bucket: true, seq: b.Sequence(), k: append([]byte{}, name...)})
			zzDumpB(b, 1, &out)
			out = append(out, zzItem{end: true})
			return nil
		})
	})
	return out
}

func zzSame(a, b []zzItem) bool {
	if len(a) != len(b) {
		return false
	}
	r := true
	for i := range a {
		x, y := a[i], b[i]
		if x.depth != y.depth || x.bucket != y.bucket || x.end != y.end || x.seq != y.seq || len(x.k) != len(y.k) || len(x.v) != len(y.v) {
			return false
		}
		r = zz.And(r, bytes.Equal(x.k, y.k))
		r = zz.And(r, bytes.Equal(x.v, y.v))
	}
	return r
}

func zzOpts() *bolt.Options {
	o := &bolt.Options{PageSize: zz.Param("pagesize", 1024), NoFreelistSync: zz.Param("noflsync", 0) == 1}
	return o
}

// zzBuild creates a database through the public API: a branch-rooted bucket, an overflow value,
// nested inline and paged buckets with sequences, then a few commits that leave free pages.
func zzBuild(path string) *bolt.DB {
	db, err := bolt.Open(path, 0600, zzOpts())
	zz.Assert(err == nil, "cli/open")
	ps := zz.Param("pagesize", 1024)
	err = db.Update(func(tx *bolt.Tx) error {
		b, err := tx.CreateBucket([]byte("b"))
		if err != nil {
			return err
		}
		for i := 0; i < 8; i++ {
			if err := b.Put([]byte{'k', byte('0' + i)}, zzVal(ps*3/10, byte('a'+i))); err != nil {
				return err
			}
		}
		if err := b.Put([]byte("ov"), zzVal(ps*2+7, 'o')); err != nil {
			return err
		}
		in, err := b.CreateBucket([]byte("in"))
		if err != nil {
			return err
		}
		_ = in.SetSequence(zz.U64("seqIn"))
		if err := in.Put([]byte("i"), []byte("x")); err != nil {
			return err
		}
		pg, err := b.CreateBucket([]byte("pg"))
		if err != nil {
			return err
		}
		_ = pg.SetSequence(zz.U64("seqPg"))
		for i := 0; i < 3; i++ {
			if err := pg.Put([]byte{'p', byte('0' + i)}, zzVal(ps*3/10, 'p')); err != nil {
				return err
			}
		}
		return nil
	})
	zz.Assert(err == nil, "cli/build")
	// 0..2 further commits: varies the parity of the newest meta and which early pages got reused
	extra := zz.Choose(3)
	if extra >= 1 {
		err = db.Update(func(tx *bolt.Tx) error { return tx.Bucket([]byte("b")).Delete([]byte("k3")) })
		zz.Assert(err == nil, "cli/build2")
	}
	if extra >= 2 {
		err = db.Update(func(tx *bolt.Tx) error {
			return tx.Bucket([]byte("b")).Put([]byte{'k', zz.U8("symkey")}, zzVal(ps*3/10, 'S'))
		})
		zz.Assert(err == nil, "cli/build3")
	}
	return db
}

func zzNoWrites(path string, from int, id string) {
	for i := from; i < zz.EventCount(); i++ {
		k, p, _, _, _ := zz.Event(i)
		zz.Assert(!(p == path && (k == "pwrite" || k == "write" || k == "ftruncate")), id)
	}
}

func zzSameBytes(a, b []byte) bool {
	if len(a) != len(b) {
		return false
	}
	r := true
	for i := range a {
		r = zz.And(r, a[i] == b[i])
	}
	return r
}

// HarnessCompactCLI (C15): compactOptions.Run on a source with or without a persisted free list.
func HarnessCompactCLI() {
	src, dst := zz.TempPath("clisrc.db"), zz.TempPath("clidst.db")
	db := zzBuild(src)
	want := zzDump(db)
	zz.Assert(db.Close() == nil, "compactcli/close")
	before := zz.FileBytes(src)
	ev0 := zz.EventCount()
	o := &compactOptions{dstPath: dst, txMaxSize: int64(zz.U16("txMaxSize")), dstNoSync: false}
	err := o.Run(&cobra.Command{}, src)
	zz.Assert(err == nil, "compactcli/Run")
	zzNoWrites(src, ev0, "compactcli/no-write-to-source")
	zz.Assert(zzSameBytes(zz.FileBytes(src), before), "compactcli/source-bytes-unchanged")
	d, err := bolt.Open(dst, 0600, zzOpts())
	zz.Assert(err == nil, "compactcli/open-dst")
	zz.Assert(zzSame(zzDump(d), want), "compactcli/destination-content-equals-source")
	n := 0
	_ = d.View(func(tx *bolt.Tx) error {
		for range tx.Check() {
			n++
		}
		return nil
	})
	zz.Assert(n == 0, "compactcli/destination-Check-silent")
	zz.Assert(d.Close() == nil, "compactcli/close-dst")
	zz.Reach("done")
}

// HarnessCheckCLI (C19): checkFunc returns nil on a consistent file and ErrCorrupt iff the library
// check reports errors (corruption injected by the caller through params).
func HarnessCheckCLI() {
	path := zz.TempPath("clicheck.db")
	db := zzBuild(path)
	zz.Assert(db.Close() == nil, "checkcli/close")
	corrupt := zz.Choose(2) == 1
	if corrupt {
		zz.Reach("corrupted")
		// make a tree page's flags invalid: page 3 upwards are data pages; pick the root of bucket b via guts
		root, _, err := guts_cli.GetRootPage(path)
		zz.Assert(err == nil, "checkcli/root")
		ps := int64(zz.Param("pagesize", 1024))
		zz.PokeFile(path, int64(root)*ps+8, 0x20) // invalid page type
	}
	before := zz.FileBytes(path)
	ev0 := zz.EventCount()
	err := checkFunc(&cobra.Command{}, path, checkOptions{})
	if corrupt {
		zz.Assert(err == guts_cli.ErrCorrupt, "checkcli/corrupt-file-reports-ErrCorrupt")
	} else {
		zz.Reach("clean")
		zz.Assert(err == nil, "checkcli/consistent-file-passes")
	}
	zzNoWrites(path, ev0, "checkcli/no-write-to-file")
	zz.Assert(zzSameBytes(zz.FileBytes(path), before), "checkcli/file-unchanged")
	zz.Reach("done")
}

// HarnessSurgery (C20): freelist abandon, abandon+rebuild and revert-meta-page.
func HarnessSurgery() {
	ps := zz.Param("pagesize", 1024)
	src := zz.TempPath("surg.db")
	db := zzBuild(src)
	prev := zzDump(db) // state before the last commit below
	err := db.Update(func(tx *bolt.Tx) error {
		b := tx.Bucket([]byte("b"))
		if err := b.Put([]byte{'k', zz.U8("lastkey")}, zzVal(ps*3/10, 'L')); err != nil {
			return err
		}
		return b.Delete([]byte("k1"))
	})
	zz.Assert(err == nil, "surgery/last-commit")
	last := zzDump(db)
	zz.Assert(db.Close() == nil, "surgery/close")
	before := zz.FileBytes(src)
	ev0 := zz.EventCount()
	out1, out2 := zz.TempPath("surg.out1"), zz.TempPath("surg.out2")
	openDump := func(path string, noSync bool, id string) []zzItem {
		o := zzOpts()
		o.NoFreelistSync = noSync
		d, err := bolt.Open(path, 0600, o)
		zz.Assert(err == nil, id+"/opens")
		if err != nil {
			return nil
		}
		got := zzDump(d)
		bolt.ZZCheckAll(d, path, ps, noSync, id)
		zz.Assert(d.Close() == nil, id+"/close")
		return got
	}
	switch zz.Choose(2) {
	case 0:
		zz.Reach("abandon-and-rebuild")
		err := surgeryFreelistAbandonFunc(src, surgeryBaseOptions{outputDBFilePath: out1})
		zz.Assert(err == nil, "surgery/abandon")
		// the free pages of the output (rebuilt by scanning, nothing written) are exactly the unreachable pages
		zz.Assert(zzSame(openDump(out1, true, "surgery/abandoned"), last), "surgery/abandon-keeps-content")
		err = surgeryFreelistRebuildFunc(out1, surgeryBaseOptions{outputDBFilePath: out2})
		zz.Assert(err == nil, "surgery/rebuild")
		zz.Assert(zzSame(openDump(out2, false, "surgery/rebuilt"), last), "surgery/rebuild-keeps-content")
		zzNoWrites(out1, zz.EventCount()-1, "surgery/noop")
	case 1:
		zz.Reach("revert-meta-page")
		err := surgeryRevertMetaPageFunc(src, surgeryBaseOptions{outputDBFilePath: out1})
		zz.Assert(err == nil, "surgery/revert")
		got := openDump(out1, zz.Param("noflsync", 0) == 1, "surgery/reverted")
		zz.Assert(zzSame(got, prev), "surgery/revert-opens-at-previous-commit")
	}
	zzNoWrites(src, ev0, "surgery/no-write-to-source")
	zz.Assert(zzSameBytes(zz.FileBytes(src), before), "surgery/source-bytes-unchanged")
	zz.Reach("done")
}

// HarnessInspectCLI (C17): the inspection commands, called directly on a database that another
// read-only handle keeps open: they coexist with it, never write to the file and leave its bytes
// unchanged (also when the file has no persisted free list).
func HarnessInspectCLI() {
	path := zz.TempPath("cliro.db")
	db := zzBuild(path)
	zz.Assert(db.Close() == nil, "inspect/close")
	before := zz.FileBytes(path)
	o := zzOpts()
	o.ReadOnly = true
	held, err := bolt.Open(path, 0400, o) // another process reading the file
	zz.Assert(err == nil, "inspect/holder")
	ev0 := zz.EventCount()
	cmd := &cobra.Command{}
	var cerr error
	switch zz.Choose(zz.Param("ncmds", 7)) {
	case 0:
		zz.Reach("keys")
		cerr = keysFunc(cmd, keysOptions{format: "hex"}, path, "b")
	case 1:
		zz.Reach("get")
		cerr = getFunc(cmd, path, []string{"b"}, []byte("k0"), getOptions{parseFormat: "ascii-encoded", format: "hex"})
	case 2:
		zz.Reach("buckets")
		cerr = bucketsFunc(cmd, path)
	case 3:
		zz.Reach("stats")
		cerr = statsFunc(cmd, path, "")
	case 4:
		zz.Reach("info")
		cerr = infoFunc(cmd, path)
	case 5:
		zz.Reach("pages")
		cerr = pagesFunc(cmd, path)
	case 6:
		zz.Reach("check")
		cerr = checkFunc(cmd, path, checkOptions{})
	}
	zz.Assert(cerr == nil, "inspect/command-coexists-with-a-read-only-holder")
	zzNoWrites(path, ev0, "inspect/no-write-to-file")
	zz.Assert(held.Close() == nil, "inspect/holder-close")
	zz.Assert(zzSameBytes(zz.FileBytes(path), before), "inspect/file-unchanged")
	ex, sh := zz.LockHolders(path)
	zz.Assert(ex == 0 && sh == 0, "inspect/no-lock-left")
	zz.Reach("done")
}
