#!/usr/bin/env python3
"""Regenerates /verif/MANIFEST.json from checks.json + tools/claims.json (level text per property)."""
import json, os
V = '/verif'
checks = json.load(open(f'{V}/checks.json'))
claims = json.load(open(f'{V}/tools/claims.json'))
props = [json.loads(l)['id'] for l in open(f'{V}/properties.jsonl')]
man = {
 "version": 1,
 "setup_cmd": "cd /verif && ./check build",
 "hooks": {"guard": "verif", "enable": "none needed: harness files are overlaid (go/packages Overlay, go test -overlay); /repo is never modified by the checks",
           "baseline_off_cmd": "cd /repo && PATH=/opt/veriftools/go1.26.8/bin:$PATH GOTOOLCHAIN=local GOFLAGS=-mod=mod GOPROXY=off go test -vet=off -count=1 -timeout 25m ./...",
           "source_commits": [], "add_only": True},
 "engines": [{"name": "gosym", "path": "/verif/engine", "serves_properties": [p for p in props if p in checks and p in claims],
              "kind_free_text": "own symbolic executor for go/ssa (x/tools v0.50.0): bit-vector expressions, byte-addressed memory, path exploration by re-execution, z3 -in (QF_BV) decides branches and assertions; nondeterministic OS model (files, mmap, flock, durability, faults, clock, goroutine scheduling)"}],
 "checks": [], "not_applicable": [],
 "notes": "Every check first validates the translator and the OS model: concrete self-test histories run in the engine and natively (digests of all observations must agree) and the engine's I/O event trace must equal the strace log of the native run; the thorough tier replays worker solver scripts on z3 5.x and cvc5 and fails on any sat/unsat disagreement. Every check regenerates its encoding from /repo's working tree (go/packages + go/ssa) on each run. Exit 0 = held within the stated bounds; 1 = VIOLATION (counterexample re-executed concretely in the engine and, where natively reproducible, by go test -overlay against the real build); 2 = inconclusive (solver unknown, unsupported construct, vacuous harness, harness no longer compiles).",
}
for p in props:
    if p in checks and p in claims:
        c = claims[p]
        man["checks"].append({
            "property_id": p,
            "quick_cmd": f"./check {p} quick",
            "thorough_cmd": f"./check {p} thorough",
            "evidence_file": f"/verif/evidence/{p}.json",
            "replay_cmd_template": "./check replay {path}",
            "engine": "gosym",
            "level_claimed": {"category": "model_checking", "text": c["text"], "design_ref": c.get("design_ref", "DESIGN.md §5 " + p)},
            "level_note": c["note"],
            "technique": c.get("technique", "bounded symbolic execution of the real Go SSA, assertions and branch feasibility decided by z3 (QF_BV)"),
        })
    else:
        reason = claims.get(p, {}).get("na_reason", "check not built yet in this session (engine stage pending); no claim is made")
        man["not_applicable"].append({"property_id": p, "reason": reason})
json.dump(man, open(f'{V}/MANIFEST.json', 'w'), indent=1)
print("checks:", [c["property_id"] for c in man["checks"]], "n/a:", len(man["not_applicable"]))
