package bbolt

// DB-level harnesses on the virtual OS: accounting (C07/C12/C19a), failed commits (C08/C03b/C06).

import (
	berrors "go.etcd.io/bbolt/errors"
	zz "go.etcd.io/bbolt/internal/zzverif"
)

type zzCfg struct {
	pageSize   int
	hashmap    bool
	noFLSync   bool
	noGrowSync bool
	initMmap   int
	maxSize    int
	noStats    bool
}

func zzConfig() zzCfg {
	return zzCfg{pageSize: zz.Param("pagesize", 1024), hashmap: zz.Param("hashmap", 0) == 1, noFLSync: zz.Param("noflsync", 0) == 1,
		noGrowSync: zz.Param("nogrowsync", 0) == 1, initMmap: zz.Param("initmmap", 0), maxSize: zz.Param("maxsize", 0),
		noStats: zz.Param("nostats", 0) == 1}
}

func (c zzCfg) options() *Options {
	o := &Options{PageSize: c.pageSize, NoFreelistSync: c.noFLSync, NoGrowSync: c.noGrowSync, InitialMmapSize: c.initMmap, MaxSize: c.maxSize,
		NoStatistics: c.noStats}
	o.FreelistType = FreelistArrayType
	if c.hashmap {
		o.FreelistType = FreelistMapType
	}
	return o
}

func zzMustOpen(path string, c zzCfg, id string) *DB {
	db, err := Open(path, 0600, c.options())
	zz.Assert(err == nil, id+"/open")
	if err != nil {
		zz.Assume(false)
	}
	return db
}

func zzVal(n int, fill byte) []byte {
	v := make([]byte, n)
	for i := range v {
		v[i] = fill
	}
	return v
}

var zzSetupValSize = 0 // when > 0: fixed value size for the setup (independent of the page size)

var zzSetupKeys = []string{"k00", "k02", "k04", "k06", "k08", "k10", "k12", "k14", "k16"}

// zzSetup builds a concrete base content: bucket "b" with a branch root (several leaves), an overflow
// value, a nested inline bucket "in" and a nested paged bucket "pg"; kind selects how much.
func zzSetup(db *DB, kind int) {
	err := db.Update(func(tx *Tx) error {
		b, err := tx.CreateBucket([]byte("b"))
		if err != nil {
			return err
		}
		if kind == 0 {
			return b.Put([]byte("k00"), []byte("v"))
		}
		if kind == 4 {
			// only nested buckets, enough of them to span several leaves; every third one is paged
			for i := 0; i < 24; i++ {
				nb, err := b.CreateBucket([]byte{'k', byte('0' + i/10), byte('0' + i%10)})
				if err != nil {
					return err
				}
				v := []byte("x")
				if i%3 == 2 {
					v = zzVal(db.pageSize*3/10, 'x')
				}
				if err := nb.Put([]byte("i"), v); err != nil {
					return err
				}
			}
			return nil
		}
		vs := db.pageSize * 3 / 10
		if zzSetupValSize > 0 {
			vs = zzSetupValSize
		}
		for i, k := range zzSetupKeys {
			if err := b.Put([]byte(k), zzVal(vs, byte('a'+i))); err != nil {
				return err
			}
		}
		if kind >= 2 {
			if err := b.Put([]byte("ov"), zzVal(db.pageSize*2+100, 'o')); err != nil {
				return err
			}
			in, err := b.CreateBucket([]byte("in"))
			if err != nil {
				return err
			}
			if err := in.Put([]byte("i1"), []byte("x")); err != nil {
				return err
			}
			pg, err := b.CreateBucket([]byte("pg"))
			if err != nil {
				return err
			}
			// six keys: a node is only split when it has more than 2*MinKeysPerPage keys, so this is the
			// smallest nested bucket with a branch root and two leaves
			for i := 0; i < 6; i++ {
				if err := pg.Put([]byte{'p', byte('0' + i)}, zzVal(vs, byte('p'))); err != nil {
					return err
				}
			}
			if _, err := pg.NextSequence(); err != nil {
				return err
			}
		}
		if kind >= 3 {
			// adjacent nested paged buckets
			for _, n := range []string{"pga", "pgb", "pgc"} {
				nb, err := b.CreateBucket([]byte(n))
				if err != nil {
					return err
				}
				if err := nb.Put([]byte("x"), zzVal(db.pageSize*4/10, 'n')); err != nil {
					return err
				}
			}
		}
		return nil
	})
	zz.Assert(err == nil, "setup/update")
	if err != nil {
		zz.Assume(false)
	}
	if kind == 6 {
		// a free list that no longer fits one page: a value of 140 pages is written and deleted again,
		// so every later commit frees and rewrites a multi-page freelist page
		err = db.Update(func(tx *Tx) error {
			return tx.Bucket([]byte("b")).Put([]byte("huge"), zzVal(db.pageSize*140, 'H'))
		})
		zz.Assert(err == nil, "setup/huge-put")
		err = db.Update(func(tx *Tx) error { return tx.Bucket([]byte("b")).Delete([]byte("huge")) })
		zz.Assert(err == nil, "setup/huge-delete")
		err = db.Update(func(tx *Tx) error { return tx.Bucket([]byte("b")).Put([]byte("k03"), []byte("x")) })
		zz.Assert(err == nil, "setup/after-huge")
	}
}

// zzSymKey: a 3-byte key "k" + two symbolic bytes, so that it falls anywhere relative to the setup keys.
func zzSymKey(name string) []byte {
	k := zz.Bytes(name, 3)
	zz.Assume(k[0] == 'k')
	return k
}

func zzValLen(ps int) int {
	switch zz.Choose(4) {
	case 0:
		return 1
	case 1:
		return ps * 3 / 10
	case 2:
		return ps + 50 // overflow
	}
	return 0
}

// zzOp applies one symbolic operation, chosen among the ops enabled in mask, to a write transaction.
func zzOp(tx *Tx, mask int) error {
	b := tx.Bucket([]byte("b"))
	if b == nil {
		return nil
	}
	var en []int
	for i := 0; i < 16; i++ {
		if mask&(1<<i) != 0 {
			en = append(en, i)
		}
	}
	switch en[zz.Choose(len(en))] {
	case 0:
		zz.Reach("op-put")
		return b.Put(zzSymKey("putk"), zzVal(zzValLen(tx.db.pageSize), 'N'))
	case 1:
		zz.Reach("op-delete")
		return b.Delete(zzSymKey("delk"))
	case 2:
		zz.Reach("op-delete-range")
		// delete a contiguous range of setup keys (forces merges / rebalancing)
		lo := zz.Choose(3) * 3
		for i := lo; i < lo+4 && i < len(zzSetupKeys); i++ {
			if err := b.Delete([]byte(zzSetupKeys[i])); err != nil {
				return err
			}
		}
		return nil
	case 3:
		zz.Reach("op-nested-create-put")
		nb, err := b.CreateBucketIfNotExists([]byte("nb"))
		if err != nil {
			return err
		}
		return nb.Put(zzSymKey("nk"), zzVal(zzValLen(tx.db.pageSize), 'M'))
	case 4:
		zz.Reach("op-delete-nested-bucket")
		name := "pg"
		if zz.Choose(2) == 1 {
			name = "in"
		}
		err := b.DeleteBucket([]byte(name))
		if err == ErrBucketNotFound {
			return nil
		}
		return err
	case 5:
		zz.Reach("op-delete-top-bucket")
		return tx.DeleteBucket([]byte("b"))
	case 6:
		zz.Reach("op-sequence")
		_, err := b.NextSequence()
		return err
	case 7:
		zz.Reach("op-put-into-paged-nested")
		pg := b.Bucket([]byte("pg"))
		if pg == nil {
			return nil
		}
		n := zzValLen(tx.db.pageSize)
		if zz.Param("bignested", 0) == 1 && zz.Choose(2) == 1 {
			// large enough to outgrow the initial map: the commit remaps while only the nested bucket
			// (none of its ancestors) has materialised nodes
			zz.Reach("op-put-big-into-paged-nested")
			n = tx.db.pageSize * 40
		}
		return pg.Put([]byte{'p', zz.U8("pgk")}, zzVal(n, 'Q'))
	case 8:
		zz.Reach("op-move-nested")
		// move the paged nested bucket "pg" into the inline bucket "in" or into a bucket created in this
		// very transaction (a later slot may delete the destination again)
		var dst *Bucket
		if zz.Choose(2) == 0 {
			dst = b.Bucket([]byte("in"))
		} else {
			var err error
			dst, err = b.CreateBucketIfNotExists([]byte("nb"))
			if err != nil {
				return err
			}
		}
		if dst == nil || b.Bucket([]byte("pg")) == nil {
			return nil
		}
		zz.Reach("op-move-nested-done")
		return tx.MoveBucket([]byte("pg"), b, dst)
	case 9:
		zz.Reach("op-delete-move-destination")
		name := "in"
		if zz.Choose(2) == 1 {
			name = "nb"
		}
		err := b.DeleteBucket([]byte(name))
		if err == ErrBucketNotFound {
			return nil
		}
		return err
	}
	return nil
}

// zzCheckAll: accounting by R on the file bytes, R-content == API dump, Tx.Check silent, stats agree.
func zzCheckAll(db *DB, path string, c zzCfg, id string) { zzCheckAllT(db, path, c, id, false, "") }

func zzCheckAllT(db *DB, path string, c zzCfg, id string, trigger bool, key string) {
	img := zz.FileView(path)
	im := zzDecode(img, c.pageSize)
	var extra []uint64
	if c.noFLSync {
		extra = zzFreeAndPending(db)
	}
	zzAccountKnown2(im, id, extra, c.noFLSync, trigger, key)
	if !c.noFLSync && im.hasFL {
		mem := zzFreeAndPending(db)
		zz.Assert(len(mem) == len(im.free), id+"/freelist-page-matches-memory-count")
		if len(mem) == len(im.free) {
			for i := range mem {
				zz.Assert(mem[i] == im.free[i], id+"/freelist-page-matches-memory")
			}
		}
	}
	err := db.View(func(tx *Tx) error {
		d := zzDump(tx)
		zz.Assert(zzSameKVs(d, im.kvs), id+"/R-content-equals-API-dump")
		n := 0
		for range tx.Check() {
			n++
		}
		zz.Assert(n == 0, id+"/Check-silent")
		return nil
	})
	zz.Assert(err == nil, id+"/view")
	if !c.noStats {
		st := db.Stats()
		zz.Assert(st.FreePageN+st.PendingPageN == db.freelist.Count(), id+"/stats-count")
	}
}

// HarnessAcct (C07, C12 DB-level, C19a): symbolic one/two-slot transactions over structural setups.
func HarnessAcct() {
	c := zzConfig()
	path := zz.TempPath("acct.db")
	db := zzMustOpen(path, c, "acct")
	zzSetup(db, zz.Param("setup", 2))
	zzCheckAll(db, path, c, "acct/after-setup")
	ntx := zz.Param("ntx", 1)
	nslots := zz.Param("slots", 1)
	m1 := zz.Param("ops1", 0xff)
	m2 := zz.Param("ops2", 0xff)
	for t := 0; t < ntx; t++ {
		tx, err := db.Begin(true)
		zz.Assert(err == nil, "acct/begin")
		var opErr error
		for s := 0; s < nslots && opErr == nil; s++ {
			if s == 0 {
				opErr = zzOp(tx, m1)
			} else {
				opErr = zzOp(tx, m2)
			}
		}
		if opErr != nil || zz.Choose(2) == 1 {
			zz.Reach("rolled-back")
			zz.Assert(tx.Rollback() == nil, "acct/rollback")
		} else {
			zz.Reach("committed")
			zz.Assert(tx.Commit() == nil, "acct/commit")
		}
		zzCheckAll(db, path, c, "acct/after-tx")
	}
	zz.Assert(db.Close() == nil, "acct/close")
	db = zzMustOpen(path, c, "acct/reopen")
	zzCheckAll(db, path, c, "acct/after-reopen")
	zz.Assert(db.Close() == nil, "acct/close2")
	zz.Reach("done")
}

// HarnessDeleteBucketAfterPut (C07): a bucket with n adjacent nested paged buckets; in one transaction
// optionally touch the parent (symbolic choice of what is touched), then delete the parent.
func HarnessDeleteBucketAfterPut() {
	c := zzConfig()
	path := zz.TempPath("delb.db")
	db := zzMustOpen(path, c, "delb")
	nn := zz.Param("nested", 4)
	err := db.Update(func(tx *Tx) error {
		p, err := tx.CreateBucket([]byte("p"))
		if err != nil {
			return err
		}
		for i := 0; i < nn; i++ {
			nb, err := p.CreateBucket([]byte{'a' + byte(i)})
			if err != nil {
				return err
			}
			if err := nb.Put([]byte("x"), zzVal(c.pageSize*4/10, 'n')); err != nil {
				return err
			}
		}
		return nil
	})
	zz.Assert(err == nil, "delb/setup")
	touched := false
	err = db.Update(func(tx *Tx) error {
		p := tx.Bucket([]byte("p"))
		switch zz.Choose(3) {
		case 0:
		case 1:
			touched = true
			zz.Reach("parent-leaf-materialised")
			k := zz.Bytes("k", 2)
			if err := p.Put(k, []byte("1")); err != nil {
				return err
			}
		case 2:
			touched = true
			zz.Reach("parent-leaf-materialised")
			if err := p.Bucket([]byte("a")).Put([]byte("y"), []byte("2")); err != nil {
				return err
			}
		}
		return tx.DeleteBucket([]byte("p"))
	})
	zz.Assert(err == nil, "delb/update")
	img := zzDecode(zz.FileBytes(path), c.pageSize)
	zzAccountKnown(img, "delb", nil, touched, "C07/deletebucket-after-touch-leaks-nested")
	zz.Reach("done")
}

func zzViewDump(db *DB, id string) []zzKV {
	var d []zzKV
	err := db.View(func(tx *Tx) error {
		d = zzDump(tx)
		return nil
	})
	zz.Assert(err == nil, id+"/view")
	return d
}

func zzDumpCatch(tx *Tx) (d []zzKV, panicked bool) {
	defer func() {
		if r := recover(); r != nil {
			panicked = true
		}
	}()
	return zzDump(tx), false
}

func zzLocksFree(db *DB, id string, readers int) {
	zz.Assert(!zz.MutexHeld(&db.rwlock), id+"/rwlock-free")
	zz.Assert(!zz.MutexHeld(&db.metalock), id+"/metalock-free")
	w, r := zz.RWMutexState(&db.mmaplock)
	zz.Assert(!w, id+"/mmaplock-not-write-held")
	zz.Assert(r == readers, id+"/mmaplock-readers")
	sw, sr := zz.RWMutexState(&db.statlock)
	zz.Assert(!sw && sr == 0, id+"/statlock-free")
	zz.Assert(db.rwtx == nil, id+"/no-writer-registered")
}

// HarnessFault (C08, C03b, C07-after-failure): one symbolic write transaction with exactly one injected
// I/O fault at any intercepted call it issues (or none), with and without a reader held across it.
func HarnessFault() {
	c := zzConfig()
	path := zz.TempPath("fault.db")
	withReader := zz.Param("reader", 1) == 1 && zz.Choose(2) == 1
	if withReader && c.initMmap < 256*c.pageSize {
		// a remap blocks until every reader has closed (documented); with the reader held by this
		// same goroutine that would be a harness-made deadlock, so the map is made large enough
		c.initMmap = 256 * c.pageSize
	}
	db := zzMustOpen(path, c, "fault")
	zzSetup(db, zz.Param("setup", 1))
	if zz.Param("reopenflip", 0) == 1 {
		// the file was written under one freelist-sync setting and is reopened under the other
		zz.Assert(db.Close() == nil, "fault/close-before-flip")
		c.noFLSync = !c.noFLSync
		db = zzMustOpen(path, c, "fault/reopen-flipped")
	}
	var rtx *Tx
	var rdump []zzKV
	readers := 0
	if withReader {
		zz.Reach("reader-held")
		var err error
		rtx, err = db.Begin(false)
		zz.Assert(err == nil, "fault/reader-begin")
		rdump = zzDump(rtx)
		readers = 1
	}
	if zz.Param("intermediate", 1) == 1 {
		// a successful commit (after the reader began, if any): its freed pages stay pending for the
		// reader, or become free pages the failing transaction will allocate from
		err := db.Update(func(tx *Tx) error {
			return tx.Bucket([]byte("b")).Put([]byte("k04"), zzVal(c.pageSize*3/10, 'Z'))
		})
		zz.Assert(err == nil, "fault/intermediate-commit")
	}
	before := zzViewDump(db, "fault/before")
	ev0 := zz.EventCount()
	// --- the failing transaction
	zz.FaultAnyOnce("write,sync,truncate,mmap")
	tx, err := db.Begin(true)
	zz.Assert(err == nil, "fault/begin")
	b := tx.Bucket([]byte("b"))
	var opErr error
	big := false
	switch zz.Choose(3) {
	case 0:
		opErr = b.Put(zzSymKey("putk"), zzVal(zzValLen(c.pageSize), 'N'))
	case 1:
		opErr = b.Delete(zzSymKey("delk"))
	case 2:
		// large value: forces file growth (truncate + sync) and, without a reader, a remap
		n := 12
		if !withReader {
			n = 40
			big = true
		}
		if c.maxSize > 0 {
			n = c.maxSize/c.pageSize + 8 // cannot fit: the commit must fail with the size-limit error
		}
		// touch the first leaf too, so that the spill allocates from the free list before the large run
		opErr = b.Put([]byte("k00"), zzVal(c.pageSize*3/10, 'Y'))
		if opErr == nil {
			opErr = b.Put([]byte("zzbig"), zzVal(c.pageSize*n, 'B'))
		}
	}
	_ = big
	var inflight []zzKV
	var cErr error
	if opErr != nil {
		zz.Reach("op-failed")
		zz.Assert(tx.Rollback() == nil, "fault/rollback-after-op-error")
		cErr = opErr
	} else {
		inflight = zzDump(tx)
		cErr = tx.Commit()
	}
	zz.FaultDisarm()
	kind, fev := zz.LastFault()
	if fev < 0 && cErr == berrors.ErrMaxSizeReached && c.maxSize > 0 {
		zz.Reach("size-limit-error")
		kind, fev = "maxsize", zz.EventCount()
	}
	if fev < 0 {
		zz.Reach("no-fault")
		zz.Assert(cErr == nil, "fault/commit-succeeds-without-fault")
		zzLocksFree(db, "fault/nofault", readers)
		if rtx != nil {
			zz.Assert(rtx.Rollback() == nil, "fault/reader-close")
		}
		zz.Assert(db.Close() == nil, "fault/close")
		return
	}
	zz.Reach("fault-injected")
	zz.Reach("fault-kind-" + kind)
	// was the meta page written (successfully) before the failing call? then this is the final sync.
	finalSync := false
	for i := ev0; i < fev; i++ {
		k, p, off, _, ok := zz.Event(i)
		if k == "pwrite" && p == path && ok && off < int64(2*c.pageSize) {
			finalSync = true
		}
	}
	zz.Assert(cErr != nil, "fault/commit-reports-error")
	zzLocksFree(db, "fault/after", readers)
	if kind == "mmap" && db.data == nil {
		// Known finding C08/remap-failure: the handle has no mapping any more. Required here: no
		// blocking, no panic, a clean error, and an intact file after reopening.
		zz.Reach("remap-failed")
		err := db.View(func(tx *Tx) error { return nil })
		if zz.Param("usable", 1) == 1 { // C08's "stays usable" clause (not part of C07's accounting claim)
			zz.AssertUnless(err == nil, true, "fault/usable-after-remap-failure", "C08/remap-failure-leaves-handle-unusable")
		}
		zz.Assert(err == nil || err == berrors.ErrInvalidMapping, "fault/remap-failure-clean-error")
		err = db.Update(func(tx *Tx) error { return nil })
		zz.Assert(err == nil || err == berrors.ErrInvalidMapping, "fault/remap-failure-clean-error-writer")
		zzLocksFree(db, "fault/after-remap-failure", readers)
		zz.Assert(db.Close() == nil, "fault/close-after-remap-failure")
		db = zzMustOpen(path, c, "fault/reopen-after-remap-failure")
		zz.Assert(zzSameKVs(zzViewDump(db, "fault/reopened"), before), "fault/nothing-visible-after-reopen")
		zzCheckAll(db, path, c, "fault/reopened")
		zz.Assert(db.Close() == nil, "fault/close2")
		return
	}
	after := zzViewDump(db, "fault/after")
	if finalSync {
		zz.Reach("final-sync-failed")
		old := zzSameKVs(after, before)
		nw := zzSameKVs(after, inflight)
		zz.Assert(zz.Or(old, nw), "fault/final-sync/entirely-old-or-new")
	} else {
		zz.Assert(zzSameKVs(after, before), "fault/nothing-visible-in-process")
	}
	zzCheckAllKnown(db, path, c, "fault/after", zz.And(finalSync, withReader), "C08/final-sync-failure-frees-reader-pages")
	if rtx != nil {
		d, p := zzDumpCatch(rtx)
		zz.Assert(!p, "fault/reader-usable-right-after")
		zz.Assert(zzSameKVs(d, rdump), "fault/reader-snapshot-right-after")
	}
	// later transactions proceed
	for i := 0; i < zz.Param("followups", 3); i++ {
		err = db.Update(func(tx *Tx) error {
			return tx.Bucket([]byte("b")).Put([]byte{'f', byte('0' + i)}, zzVal(c.pageSize*3/10, byte('0'+i)))
		})
		zz.Assert(err == nil, "fault/next-update-succeeds")
	}
	if rtx != nil {
		zzDumpSoft, zzDumpBroken = finalSync, false
		d, p := zzDumpCatch(rtx)
		p = p || zzDumpBroken
		zzDumpSoft = false
		zz.AssertUnless(!p, finalSync, "fault/reader-usable-later", "C08/final-sync-failure-frees-reader-pages")
		if !p {
			zz.AssertUnless(zzSameKVs(d, rdump), finalSync, "fault/reader-snapshot-later", "C08/final-sync-failure-frees-reader-pages")
		}
		_ = rtx.Rollback()
		readers = 0
	}
	zzCheckAll(db, path, c, "fault/after-followups")
	final := zzViewDump(db, "fault/final")
	zz.Assert(db.Close() == nil, "fault/close")
	db = zzMustOpen(path, c, "fault/reopen")
	zz.Assert(zzSameKVs(zzViewDump(db, "fault/reopened"), final), "fault/reopen-same-content")
	zzCheckAll(db, path, c, "fault/reopened")
	zz.Assert(db.Close() == nil, "fault/close2")
	zz.Reach("done")
}

func zzCheckAllKnown(db *DB, path string, c zzCfg, id string, trigger bool, key string) {
	// the accounting clauses that the known finding breaks are asserted unless its trigger holds
	if trigger {
		zz.Note("known-finding trigger active: " + key)
	}
	zzCheckAllT(db, path, c, id, trigger, key)
}

// ZZCheckAll is the exported entry to the accounting checks, for harnesses living in other packages
// (command-line tool harnesses).
func ZZCheckAll(db *DB, path string, pageSize int, noFLSync bool, id string) {
	zzCheckAll(db, path, zzCfg{pageSize: pageSize, noFLSync: noFLSync}, id)
}
