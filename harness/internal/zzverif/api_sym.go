// Package zzverif is the harness-facing API of the gosym engine. This file holds the body-less
// declarations the engine intercepts; api_native.go holds the bodies used for native replay.
// The package exists only in overlays (never in /repo).
package zzverif

import "sync"

// fresh symbolic inputs
func U8(name string) uint8
func U16(name string) uint16
func U32(name string) uint32
func U64(name string) uint64
func Bool(name string) bool
func Bytes(name string, n int) []byte

// exploration control
func Choose(n int) int
func Assume(c bool)
func Assert(c bool, id string)
func Assertf(c bool, id string, msg string)

// AssertUnless: if key is listed as a known finding, proves c ∨ trigger and records whether
// ¬c ∧ trigger is reachable; otherwise proves c.
func AssertUnless(c bool, trigger bool, id string, key string)
func KnownFaultRegion(trigger bool, key string)
func Digest(name string, v uint64)
func Reach(label string)
func Param(name string, def int) int
func Note(msg string)
func Symbolic() bool
func MapOrderAny(on bool)
func And(a, b bool) bool
func Or(a, b bool) bool
func Implies(a, b bool) bool
func Ite64(c bool, a, b uint64) uint64
func SameExpr(a, b uint64) bool
func Concretize64(v uint64) uint64
func StubReturn64(fn string, v uint64)
func StubClear()

// lock introspection
func MutexHeld(m *sync.Mutex) bool
func RWMutexState(m *sync.RWMutex) (writer bool, readers int)

// environment (vos)
func TempPath(name string) string
func FaultArm(kind string, k int)
func FaultAnyOnce(kinds string)
func FaultDisarm()
func FaultFired() bool
func IOCount(kind string) int
func LastFault() (kind string, eventIndex int)
func FileSize(path string) int64
func FileBytes(path string) []byte
func FileView(path string) []byte
func WriteFileBytes(path string, b []byte)
func PokeFile(path string, off int64, v byte)
func PeekFile(path string, off int64) byte
func PokeDelete(path string)
func SymbolicTruncate(on bool)
func LastTruncate() (size int64, any bool)
func CrashArm()
func CrashDisarm()
func RunUntilCrash(f func()) bool
func EventCount() int
func Event(i int) (kind string, path string, off int64, n int64, ok bool)
func Protect(path string, off int64, n int64, what string)
func ProtectClear()
func LockHolders(path string) (exclusive int, shared int)
func ClockAdvance(d int64)
func ClockNow() int64
func Setenv(k, v string)
func IsReadOnlyMem(b []byte) bool
func TryStore(b []byte, i int, v byte) bool
