package freelist

// Kernel harnesses for the free-page allocator (C09, C10a, parts of C02/C06).
// One real operation from an arbitrary valid abstract state (F, P, A, R), both backends.

import (
	"unsafe"

	"go.etcd.io/bbolt/internal/common"
	zz "go.etcd.io/bbolt/internal/zzverif"
)

type zzPend struct {
	id common.Pgid
	a  common.Txid // allocating tx (0 = unknown)
	w  common.Txid // freeing tx
}

type zzState struct {
	fl    Interface
	sh    *shared
	F     []common.Pgid
	P     []zzPend
	A     map[common.Pgid]common.Txid // model of allocs (concrete-keyed list below)
	Akeys []common.Pgid
	Avals []common.Txid
	R     []common.Txid
}

func zzNew(backend int) (Interface, *shared) {
	if backend == 0 {
		a := NewArrayFreelist().(*array)
		return a, a.shared
	}
	h := NewHashMapFreelist().(*hashMap)
	return h, h.shared
}

func zzContains(ids []common.Pgid, x common.Pgid) bool {
	r := false
	for _, id := range ids {
		r = zz.Or(r, id == x)
	}
	return r
}

// zzBuild installs an arbitrary valid state into the real structures through the real API where
// possible (Init builds the hashmap indexes) and directly for pending/allocs/readers.
func zzBuild(backend, nF, nP, nA, nR int, hi uint64) *zzState {
	fl, sh := zzNew(backend)
	s := &zzState{fl: fl, sh: sh}
	// F: strictly increasing ids >= 2 with symbolic gaps 0..2
	prev := common.Pgid(1)
	for i := 0; i < nF; i++ {
		g := zz.U8("Fgap")
		zz.Assume(g <= 2)
		id := prev + 1 + common.Pgid(g)
		s.F = append(s.F, id)
		prev = id
	}
	ids := make(common.Pgids, len(s.F))
	copy(ids, s.F)
	fl.Init(ids)
	// P: pending entries, ids disjoint from F and each other, over two freeing txids w0 < w1
	var w [2]common.Txid
	w[0] = common.Txid(zz.U64("w0"))
	w[1] = common.Txid(zz.U64("w1"))
	zz.Assume(w[0] >= 1 && w[0] < w[1] && uint64(w[1]) < hi)
	for i := 0; i < nP; i++ {
		id := common.Pgid(zz.U64("Pid"))
		zz.Assume(id >= 2 && uint64(id) < hi)
		zz.Assume(!zzContains(s.F, id))
		for _, q := range s.P {
			zz.Assume(q.id != id)
		}
		wi := w[0]
		if zz.Bool("Pw") {
			wi = w[1]
		}
		a := common.Txid(zz.U64("Pa"))
		zz.Assume(a < wi) // allocated by an earlier tx, or 0 = unknown
		s.P = append(s.P, zzPend{id, a, wi})
		txp := sh.pending[wi]
		if txp == nil {
			txp = &txPending{}
			sh.pending[wi] = txp
		}
		txp.ids = append(txp.ids, id)
		txp.alloctx = append(txp.alloctx, a)
		sh.cache[id] = struct{}{}
	}
	// lastReleaseBegin: 0 (never matched by a releaseRange) or the begin b of the last matching
	// releaseRange(b, e) with b <= w <= e, which removed every entry with b <= alloctx; so a < b remains.
	if zz.Param("lrb", 0) == 1 {
		for wi, txp := range sh.pending {
			b := common.Txid(zz.U64("lrb"))
			zz.Assume(b <= wi)
			for _, a := range txp.alloctx {
				zz.Assume(zz.Or(b == 0, a < b))
			}
			txp.lastReleaseBegin = b
		}
	}
	// A: allocs entries, keys disjoint from F and P
	for i := 0; i < nA; i++ {
		id := common.Pgid(zz.U64("Aid"))
		zz.Assume(id >= 2 && uint64(id) < hi)
		zz.Assume(!zzContains(s.F, id))
		for _, q := range s.P {
			zz.Assume(q.id != id)
		}
		for _, k := range s.Akeys {
			zz.Assume(k != id)
		}
		t := common.Txid(zz.U64("Atx"))
		zz.Assume(t >= 1 && uint64(t) < hi)
		s.Akeys = append(s.Akeys, id)
		s.Avals = append(s.Avals, t)
		sh.allocs[id] = t
	}
	// R: readers (multiset)
	for i := 0; i < nR; i++ {
		t := common.Txid(zz.U64("Rtx"))
		zz.Assume(uint64(t) < hi)
		s.R = append(s.R, t)
		sh.readonlyTXIDs = append(sh.readonlyTXIDs, t)
	}
	return s
}

// zzRI asserts the representation invariant on the real structures.
func zzRI(s *zzState, id string) {
	free := s.fl.freePageIds()
	// sorted, distinct, >= 2
	for i := range free {
		zz.Assert(free[i] >= 2, id+"/free>=2")
		if i > 0 {
			zz.Assert(free[i-1] < free[i], id+"/free-sorted-distinct")
		}
	}
	zz.Assert(s.fl.FreeCount() == len(free), id+"/freecount")
	// cache = F ∪ P exactly
	np := 0
	for _, txp := range s.sh.pending {
		zz.Assert(len(txp.ids) == len(txp.alloctx), id+"/pending-lens")
		for _, pid := range txp.ids {
			np++
			_, ok := s.sh.cache[pid]
			zz.Assert(ok, id+"/pending-in-cache")
			zz.Assert(!zzContains(free, pid), id+"/pending-not-free")
		}
	}
	for _, fid := range free {
		_, ok := s.sh.cache[fid]
		zz.Assert(ok, id+"/free-in-cache")
	}
	zz.Assert(len(s.sh.cache) == len(free)+np, id+"/cache-size")
	zz.Assert(s.fl.PendingCount() == np, id+"/pendingcount")
	// (allocs may legitimately hold stale entries for overflow ids after a rolled-back Free, so
	// "allocs ∩ cache = ∅" is not an invariant of the real code and is not asserted.)
	if h, ok := s.fl.(*hashMap); ok {
		zzRIHash(h, free, id)
	}
}

// zzRIHash: forward/backward/freemaps describe the same maximal non-adjacent spans.
func zzRIHash(h *hashMap, free []common.Pgid, id string) {
	total := uint64(0)
	nspans := 0
	for start, size := range h.forwardMap {
		nspans++
		total += size
		zz.Assert(size >= 1, id+"/span-size")
		bs, ok := h.backwardMap[start+common.Pgid(size)-1]
		zz.Assert(ok && bs == size, id+"/backward-matches")
		set, ok2 := h.freemaps[size]
		zz.Assert(ok2, id+"/freemaps-has-size")
		_, ok3 := set[start]
		zz.Assert(ok3, id+"/freemaps-has-start")
		// maximal: neighbours are not free
		zz.Assert(!zzContains(free, start-1), id+"/span-maximal-left")
		zz.Assert(!zzContains(free, start+common.Pgid(size)), id+"/span-maximal-right")
		for k := uint64(0); k < size; k++ {
			zz.Assert(zzContains(free, start+common.Pgid(k)), id+"/span-members-free")
		}
	}
	zz.Assert(len(h.backwardMap) == nspans, id+"/backward-count")
	cnt := 0
	for _, set := range h.freemaps {
		zz.Assert(len(set) > 0, id+"/freemaps-no-empty-set")
		cnt += len(set)
	}
	zz.Assert(cnt == nspans, id+"/freemaps-count")
	zz.Assert(h.freePagesCount == total, id+"/freePagesCount")
	zz.Assert(total == uint64(len(free)), id+"/total=len(free)")
}

func zzSameIDs(a, b []common.Pgid) bool {
	if len(a) != len(b) {
		return false
	}
	r := true
	for i := range a {
		r = zz.And(r, a[i] == b[i])
	}
	return r
}

func zzCopyIDs(a []common.Pgid) []common.Pgid {
	c := make([]common.Pgid, len(a))
	copy(c, a)
	return c
}

// HarnessAlloc: Allocate(t, n) from an arbitrary valid state.
func HarnessAlloc() {
	backend := zz.Param("backend", 0)
	s := zzBuild(backend, zz.Param("nF", 4), zz.Param("nP", 1), zz.Param("nA", 1), 0, 1<<40)
	zzRI(s, "alloc/pre")
	n := int(zz.U8("n"))
	zz.Assume(n >= 1 && n <= zz.Param("maxN", 3))
	txid := common.Txid(zz.U64("txid"))
	zz.Assume(txid >= 1)
	before := zzCopyIDs(s.F)
	pendBefore := s.fl.PendingCount()
	zz.MapOrderAny(true) // hashmap: "any element" picks every element
	r := s.fl.Allocate(txid, n)
	zz.MapOrderAny(false)
	after := zzCopyIDs(s.fl.freePageIds())
	if r == 0 {
		zz.Reach("alloc-failed")
		// no run of n consecutive ids existed
		for i := 0; i+n <= len(before); i++ {
			zz.Assert(before[i+n-1]-before[i] != common.Pgid(n-1), "alloc/none-only-if-no-run")
		}
		zz.Assert(zzSameIDs(before, after), "alloc/none-changes-nothing")
	} else {
		zz.Reach("allocated")
		zz.Assert(r >= 2, "alloc/never-meta")
		for k := 0; k < n; k++ {
			zz.Assert(zzContains(before, r+common.Pgid(k)), "alloc/run-was-free")
			zz.Assert(!zzContains(after, r+common.Pgid(k)), "alloc/run-free-no-longer")
			_, inCache := s.sh.cache[r+common.Pgid(k)]
			zz.Assert(!inCache, "alloc/run-out-of-cache")
		}
		zz.Assert(len(after) == len(before)-n, "alloc/exactly-n-removed")
		for _, id := range after {
			zz.Assert(zzContains(before, id), "alloc/nothing-added")
		}
		at, ok := s.sh.allocs[r]
		zz.Assert(ok && at == txid, "alloc/allocs-records-tx")
	}
	zz.Assert(s.fl.PendingCount() == pendBefore, "alloc/pending-unchanged")
	zzRI(s, "alloc/post")
}

// HarnessFree: Free(t, page{id, overflow}) from an arbitrary valid state.
func HarnessFree() {
	backend := zz.Param("backend", 0)
	s := zzBuild(backend, zz.Param("nF", 3), zz.Param("nP", 2), zz.Param("nA", 2), 0, 1<<40)
	zzRI(s, "free/pre")
	id := common.Pgid(zz.U64("id"))
	zz.Assume(uint64(id) < 1<<40)
	ov := uint32(zz.U8("overflow"))
	zz.Assume(int(ov) <= zz.Param("maxOv", 1))
	txid := common.Txid(zz.U64("txid"))
	zz.Assume(txid >= 2 && uint64(txid) < 1<<40)
	// the freeing tx is the newest one: larger than every recorded txid
	for _, q := range s.P {
		zz.Assume(q.w <= txid)
	}
	for _, t := range s.Avals {
		zz.Assume(t < txid)
	}
	buf := make([]byte, 64)
	p := (*common.Page)(unsafe.Pointer(&buf[0]))
	p.SetId(id)
	p.SetOverflow(ov)
	// the freed page may be of any type (branch, leaf, the old freelist page, ...) with any count: the
	// specification does not depend on them
	p.SetFlags(zz.U16("flags"))
	p.SetCount(zz.U16("count"))
	before := zzCopyIDs(s.F)
	// expected outcome
	clash := id <= 1
	for k := uint32(0); k <= ov; k++ {
		x := id + common.Pgid(k)
		clash = zz.Or(clash, zzContains(before, x))
		for _, q := range s.P {
			clash = zz.Or(clash, q.id == x)
		}
	}
	expA := common.Txid(0)
	hadA := false
	for i, k := range s.Akeys {
		if k == id {
			expA = s.Avals[i]
			hadA = true
		}
	}
	pendBefore := s.fl.PendingCount()
	panicked := zzCatch(func() { s.fl.Free(txid, p) })
	if panicked {
		zz.Reach("free-panicked")
		zz.Assert(clash, "free/panics-only-on-meta-or-double-free")
		return
	}
	zz.Reach("freed")
	zz.Assert(!clash, "free/must-panic-on-meta-or-double-free")
	after := s.fl.freePageIds()
	zz.Assert(zzSameIDs(before, after), "free/never-directly-reusable")
	zz.Assert(s.fl.PendingCount() == pendBefore+int(ov)+1, "free/pending-grows-by-run")
	txp := s.sh.pending[txid]
	zz.Assert(txp != nil, "free/pending-for-tx")
	if txp != nil {
		for k := uint32(0); k <= ov; k++ {
			x := id + common.Pgid(k)
			found := false
			for i, pid := range txp.ids {
				if pid == x {
					found = true
					zz.Assert(txp.alloctx[i] == expA, "free/alloctx-recorded")
				}
			}
			zz.Assert(found, "free/run-pending")
		}
	}
	_, still := s.sh.allocs[id]
	zz.Assert(!still, "free/allocs-entry-removed")
	_ = hadA
	zzRI(s, "free/post")
}

func zzCatch(f func()) (panicked bool) {
	defer func() {
		if r := recover(); r != nil {
			panicked = true
		}
	}()
	f()
	return false
}

// HarnessRelease: ReleasePendingPages from an arbitrary valid state with symbolic reader txids.
// Safety: an entry (p, a, w) may become free only if no registered reader r has lo(a) <= r < w
// (a == 0: allocator unknown, treated as "old"). Liveness: it must become free if there is no reader,
// if w is below every reader, or if a != 0 and no reader lies in [a, w].
func HarnessRelease() {
	backend := zz.Param("backend", 0)
	s := zzBuild(backend, zz.Param("nF", 2), zz.Param("nP", 3), 0, zz.Param("nR", 2), 1<<40)
	before := zzCopyIDs(s.F)
	cacheBefore := len(s.sh.cache)
	s.fl.ReleasePendingPages()
	after := zzCopyIDs(s.fl.freePageIds())
	moved := 0
	for _, q := range s.P {
		needed := false
		readerInSpan := false
		belowAll := true
		for _, r := range s.R {
			needed = zz.Or(needed, zz.And(zz.Or(q.a == 0, q.a <= r), r < q.w))
			readerInSpan = zz.Or(readerInSpan, zz.And(q.a <= r, r <= q.w))
			belowAll = zz.And(belowAll, q.w < r)
		}
		must := zz.Or(len(s.R) == 0, zz.Or(belowAll, zz.And(q.a != 0, !readerInSpan)))
		isFree := zzContains(after, q.id)
		// still pending?
		isPending := false
		if txp := s.sh.pending[q.w]; txp != nil {
			isPending = zzContains(txp.ids, q.id)
			// an entry that stays pending keeps its allocating txid (ids and alloctx stay paired)
			zz.Assert(len(txp.ids) == len(txp.alloctx), "release/ids-and-alloctx-same-length")
			for i := range txp.ids {
				if i < len(txp.alloctx) {
					zz.Assert(zz.Implies(txp.ids[i] == q.id, txp.alloctx[i] == q.a), "release/pending-entry-keeps-its-allocating-txid")
				}
			}
		}
		zz.AssertUnless(zz.Implies(isFree, !needed), zzHasReaderZero(s.R), "release/safety-no-reader-version-contains-it", "C09/reader-txid-0-release-wraps")
		zz.Assert(zz.Implies(must, isFree), "release/liveness")
		zz.Assert(isFree != isPending, "release/free-xor-pending")
		if isFree {
			moved++
			zz.Reach("released")
		} else {
			zz.Reach("withheld")
		}
	}
	zz.Assert(len(after) == len(before)+moved, "release/free-grows-by-moved")
	for _, id := range before {
		zz.Assert(zzContains(after, id), "release/free-ids-kept")
	}
	zz.Assert(len(s.sh.cache) == cacheBefore, "release/cache-unchanged")
	zzRI(s, "release/post")
}

func zzHasReaderZero(rs []common.Txid) bool {
	r := false
	for _, t := range rs {
		r = zz.Or(r, t == 0)
	}
	return r
}

// HarnessReaders: AddReadonlyTXID / RemoveReadonlyTXID have multiset semantics.
func HarnessReaders() {
	backend := zz.Param("backend", 0)
	s := zzBuild(backend, 1, 0, 0, zz.Param("nR", 3), 1<<40)
	t := common.Txid(zz.U64("t"))
	zz.Assume(uint64(t) < 1<<40)
	count := func(rs []common.Txid, x common.Txid) int {
		n := 0
		for _, r := range rs {
			if r == x {
				n++
			}
		}
		return n
	}
	probe := common.Txid(zz.U64("probe"))
	c0 := count(s.sh.readonlyTXIDs, probe)
	switch zz.Choose(3) {
	case 0:
		zz.Reach("add")
		s.fl.AddReadonlyTXID(t)
		exp := c0
		if probe == t {
			exp++
		}
		zz.Assert(count(s.sh.readonlyTXIDs, probe) == exp, "readers/add-multiset")
		zz.Assert(len(s.sh.readonlyTXIDs) == len(s.R)+1, "readers/add-len")
	case 1:
		zz.Reach("remove")
		had := count(s.sh.readonlyTXIDs, t)
		s.fl.RemoveReadonlyTXID(t)
		exp := c0
		if probe == t && had > 0 {
			exp--
		}
		zz.Assert(count(s.sh.readonlyTXIDs, probe) == exp, "readers/remove-one-occurrence")
		if had > 0 {
			zz.Assert(len(s.sh.readonlyTXIDs) == len(s.R)-1, "readers/remove-len")
		} else {
			zz.Assert(len(s.sh.readonlyTXIDs) == len(s.R), "readers/remove-absent-noop")
		}
	case 2:
		// two removals in a row (no sort in between) behave as two multiset removals
		zz.Reach("remove-twice")
		t2 := common.Txid(zz.U64("t2"))
		had := count(s.sh.readonlyTXIDs, t)
		s.fl.RemoveReadonlyTXID(t)
		had2 := count(s.sh.readonlyTXIDs, t2)
		s.fl.RemoveReadonlyTXID(t2)
		exp := c0
		if probe == t && had > 0 {
			exp--
		}
		if probe == t2 && had2 > 0 {
			exp--
		}
		zz.Assert(count(s.sh.readonlyTXIDs, probe) == exp, "readers/remove-twice-multiset")
	}
}

// HarnessRollback: k symbolic Allocate/Free steps by transaction t, then Rollback(t) and the reload
// the real code performs afterwards, restore the begin-state exactly.
func HarnessRollback() {
	backend := zz.Param("backend", 0)
	sync := zz.Param("sync", 1) == 1
	s := zzBuild(backend, zz.Param("nF", 3), zz.Param("nP", 1), zz.Param("nA", 1), 0, 1<<40)
	t := common.Txid(zz.U64("t"))
	zz.Assume(uint64(t) < 1<<40)
	for _, q := range s.P {
		zz.Assume(q.w < t)
	}
	for _, a := range s.Avals {
		zz.Assume(a < t)
	}
	beginFree := zzCopyIDs(s.F)
	beginPend := s.fl.PendingCount()
	// the persisted image of the begin state, as the previous commit wrote it
	buf := make([]byte, 4096)
	pg := (*common.Page)(unsafe.Pointer(&buf[0]))
	s.fl.Write(pg)
	allFree := zzCopyIDs(s.fl.freePageIds())
	steps := zz.Param("steps", 2)
	pbuf := make([]byte, 64)
	nfreed := 0
	free1 := func() {
		p := (*common.Page)(unsafe.Pointer(&pbuf[0]))
		p.SetId(s.Akeys[nfreed])
		p.SetOverflow(0)
		nfreed++
		if zzCatch(func() { s.fl.Free(t, p) }) {
			zz.Assume(false)
		}
	}
	// a write transaction that reaches Rollback with allocations has also freed pages (commit frees
	// the old root / freelist page before it allocates): the first step is a Free.
	zz.Reach("step-free")
	free1()
	// reload=0: a failed commit (Tx.rollback reloads the list from the file afterwards);
	// reload=2: a user Rollback (Tx.nonPhysicalRollback): the transaction only freed pages
	// (DeleteBucket frees at once, allocation happens in Commit only) and nothing is reloaded.
	noReload := zz.Param("reload", 0) == 2
	for i := 1; i < steps; i++ {
		if noReload {
			if nfreed >= len(s.Akeys) {
				break
			}
			zz.Reach("step-free")
			free1()
			continue
		}
		if nfreed >= len(s.Akeys) || zz.Choose(2) == 0 {
			zz.Reach("step-allocate")
			n := 1 + zz.Choose(2)
			s.fl.Allocate(t, n)
		} else {
			zz.Reach("step-free")
			free1()
		}
	}
	s.fl.Rollback(t)
	if noReload {
		zz.Reach("user-rollback")
	} else if sync {
		s.fl.Reload(pg)
	} else {
		s.fl.NoSyncReload(allFree)
	}
	zz.Assert(zzSameIDs(zzCopyIDs(s.fl.freePageIds()), beginFree), "rollback/free-restored")
	zz.Assert(s.fl.PendingCount() == beginPend, "rollback/pending-restored")
	for i, k := range s.Akeys {
		v, ok := s.sh.allocs[k]
		zz.Assert(ok && v == s.Avals[i], "rollback/allocs-restored")
	}
	zz.Assert(len(s.sh.allocs) == len(s.Akeys), "rollback/allocs-no-extra")
	for _, q := range s.P {
		txp := s.sh.pending[q.w]
		zz.Assert(txp != nil && zzContains(txp.ids, q.id), "rollback/pending-entries-kept")
	}
	zzRI(s, "rollback/post")
}

// HarnessWriteRead: Write then Read into a fresh list of either backend: F' = F ∪ ⋃P, P' = ∅; the page
// image is identical for both backends; EstimatedWritePageSize never underestimates.
func HarnessWriteRead() {
	s0 := zzBuild(0, zz.Param("nF", 3), zz.Param("nP", 2), 0, 0, 1<<40)
	est := s0.fl.EstimatedWritePageSize()
	buf := make([]byte, 4096)
	pg := (*common.Page)(unsafe.Pointer(&buf[0]))
	s0.fl.Write(pg)
	n := len(s0.F) + len(s0.P)
	zz.Assert(est >= 16+8*n, "rw/estimate-not-under")
	zz.Assert(pg.IsFreelistPage(), "rw/flag")
	zz.Assert(int(pg.Count()) == n, "rw/count")
	// independent reading of the page image: ids sorted ascending, exactly F ∪ P
	for i := 0; i < n; i++ {
		id := common.Pgid(zzLE64(buf, 16+8*i))
		if i > 0 {
			zz.Assert(common.Pgid(zzLE64(buf, 16+8*(i-1))) < id, "rw/page-ids-sorted")
		}
		inP := false
		for _, q := range s0.P {
			inP = zz.Or(inP, q.id == id)
		}
		zz.Assert(zz.Or(zzContains(s0.F, id), inP), "rw/page-id-is-free-or-pending")
	}
	// same abstract state installed in the hashmap backend gives the same bytes
	h, hs := zzNew(1)
	ids := make(common.Pgids, len(s0.F))
	copy(ids, s0.F)
	h.Init(ids)
	for w, txp := range s0.sh.pending {
		c := &txPending{ids: zzCopyIDs(txp.ids), alloctx: append([]common.Txid{}, txp.alloctx...)}
		hs.pending[w] = c
		for _, id := range c.ids {
			hs.cache[id] = struct{}{}
		}
	}
	buf2 := make([]byte, 4096)
	pg2 := (*common.Page)(unsafe.Pointer(&buf2[0]))
	h.Write(pg2)
	same := true
	for i := 0; i < 16+8*n; i++ {
		same = zz.And(same, buf[i] == buf2[i])
	}
	zz.Assert(same, "rw/backends-write-identical-bytes")
	// read back into fresh lists
	for backend := 0; backend < 2; backend++ {
		f, fs := zzNew(backend)
		f.Read(pg)
		got := f.freePageIds()
		zz.Assert(len(got) == n, "rw/read-count")
		zz.Assert(f.PendingCount() == 0, "rw/read-no-pending")
		if len(got) == n {
			for i := 0; i < n; i++ {
				zz.Assert(got[i] == common.Pgid(zzLE64(buf, 16+8*i)), "rw/read-ids")
			}
		}
		zzRI(&zzState{fl: f, sh: fs}, "rw/read-post")
	}
	zz.Reach("done")
}

func zzLE64(b []byte, o int) uint64 {
	return uint64(b[o]) | uint64(b[o+1])<<8 | uint64(b[o+2])<<16 | uint64(b[o+3])<<24 | uint64(b[o+4])<<32 | uint64(b[o+5])<<40 | uint64(b[o+6])<<48 | uint64(b[o+7])<<56
}

// HarnessCountOverflow (C09, C12): the 0xFFFF count convention. Write with Count/Copyall summarised
// (no ids materialised) at the boundary lengths, then the real header readers on the written page,
// and the real FreelistPageCount on a symbolic header.
func HarnessCountOverflow() {
	f, _ := zzNew(zz.Param("backend", 0))
	ls := []uint64{0, 1, 0xFFFE, 0xFFFF, 0x10000, 0x20000}
	l := ls[zz.Choose(len(ls))]
	zz.StubReturn64("(*go.etcd.io/bbolt/internal/freelist.shared).Count", l)
	zz.StubReturn64("(*go.etcd.io/bbolt/internal/freelist.shared).Copyall", 0)
	buf := make([]byte, 16+8*(int(l)+2))
	p := (*common.Page)(unsafe.Pointer(&buf[0]))
	f.Write(p)
	est := f.EstimatedWritePageSize()
	zz.StubClear()
	zz.Assert(p.IsFreelistPage(), "ffff/flag")
	if l < 0xFFFF {
		zz.Assert(uint64(p.Count()) == l, "ffff/count-field-holds-small-lengths")
		zz.Assert(est >= 16+8*int(l), "ffff/estimate")
	} else {
		zz.Reach("overflowed")
		zz.Assert(p.Count() == 0xFFFF, "ffff/count-field-saturates")
		zz.Assert(zzLE64(buf, 16) == l, "ffff/first-element-holds-the-length")
		zz.Assert(est >= 16+8*(int(l)+1), "ffff/estimate-includes-the-extra-element")
	}
	idx, cnt := p.FreelistPageCount()
	zz.Assert(uint64(cnt) == l, "ffff/reader-recovers-the-length")
	if l >= 0xFFFF {
		zz.Assert(idx == 1, "ffff/reader-skips-the-length-element")
	} else {
		zz.Assert(idx == 0, "ffff/reader-starts-at-element-0")
	}
	// symbolic header: any count field, any first element
	hb := zz.Bytes("hdr", 24)
	zz.Assume(hb[8] == 0x10 && hb[9] == 0) // freelist page
	hp := (*common.Page)(unsafe.Pointer(&hb[0]))
	c16 := uint64(hb[10]) | uint64(hb[11])<<8
	first := zzLE64(hb, 16)
	zz.Assume(first < 1<<40)
	i2, c2 := hp.FreelistPageCount()
	if c16 == 0xFFFF {
		zz.Assert(i2 == 1 && uint64(c2) == first, "ffff/symbolic-header-overflow-rule")
	} else {
		zz.Assert(i2 == 0 && uint64(c2) == c16, "ffff/symbolic-header-plain-rule")
	}
	zz.Reach("done")
}
