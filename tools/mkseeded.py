#!/usr/bin/env python3
"""Assembles /verif/seeded/<ID>-<k>/ from the sub-agents' outputs (/tmp/seed), my re-verification
logs (/tmp/seedverify) and the detection matrix (/tmp/matrix.txt); writes seeded/MATRIX.md."""
import json, os, re, shutil, glob
SRC, VER, OUT = '/tmp/seed', '/tmp/seedverify', '/verif/seeded'
matrix = {}
for ln in open('/tmp/matrix.txt'):
    m = re.match(r'(C\d+)/(m\d) check=(C\d+) rc=(\d+) ?(.*)', ln.strip())
    if m:
        matrix.setdefault((m.group(1), m.group(2)), []).append((m.group(3), int(m.group(4)), m.group(5).strip(',')))
    m = re.match(r'(C\d+)/(m\d) patch-does-not-apply', ln.strip())
    if m:
        matrix.setdefault((m.group(1), m.group(2)), []).append(('-', -1, 'patch does not apply to the repaired tree'))
os.makedirs(OUT, exist_ok=True)
rows = []
for d in sorted(glob.glob(f'{SRC}/C*.out/m*')):
    pid = os.path.basename(os.path.dirname(d))[:-4]; m = os.path.basename(d); k = m[1:]
    dst = f'{OUT}/{pid}-{k}'
    res_file = f'{VER}/{pid}-{m}/result.txt'
    if not os.path.exists(res_file):
        continue
    res = open(res_file).read()
    get = lambda key: (re.search(key + r' rc=(\d+)', res) or [None, None])[1]
    ok_demo = get('demo_pristine') == '0' and get('demo_patched') not in (None, '0')
    fails = re.findall(r'--- FAIL: (\S+)', res)
    suite_ok = get('suite') == '0' or (fails and all(f.startswith('TestDB_Open_InitialMmapSize') for f in fails))
    if not (get('build') == '0' and ok_demo and suite_ok):
        rows.append((pid, k, 'NOT KEPT (re-verification failed: ' + res.replace('\n', '; ')[:200] + ')', ''))
        continue
    os.makedirs(dst, exist_ok=True)
    shutil.copy(f'{d}/patch.diff', dst)
    for f in glob.glob(f'{d}/demo*') + glob.glob(f'{d}/*.go'):
        shutil.copy(f, dst)
    meta = json.load(open(f'{d}/meta.json'))
    meta['property'] = pid
    meta['verified_by_me'] = {
        'worktree': 'scratch git worktree of e681957 under /tmp/seedverify (removed afterwards)',
        'build': 'go build ./... ok',
        'demo_on_pristine_tree': 'passes', 'demo_with_patch': 'fails',
        'existing_suite_with_patch': 'go test -vet=off -count=1 . ./internal/... ./cmd/... : ' + ('all ok' if get('suite') == '0' else 'all ok except the known-flaky TestDB_Open_InitialMmapSize (timing, machine under load; listed flaky in the baseline)'),
    }
    det = matrix.get((pid, m), [])
    meta['detected_by_quick_checks'] = [{'check': c, 'exit': rc, 'assertions': a} for c, rc, a in det]
    json.dump(meta, open(f'{dst}/meta.json', 'w'), indent=1)
    caught = [c for c, rc, a in det if rc == 1]
    rows.append((pid, k, meta.get('summary', '')[:150].replace('|', '/'), ', '.join(f"{c}" for c in caught) if caught else ('NOT DETECTED' if det else 'not run')))
with open(f'{OUT}/MATRIX.md', 'w') as f:
    f.write('# Seeded changes and the quick-tier checks that report them\n\nEach change was applied to /repo (`git apply`), the listed checks were run (`gosym run -tier quick`), and the tree was restored. '
            '"detected by" lists the property checks that exited 1 with a VIOLATION line.\n\n| seed | change | detected by |\n|---|---|---|\n')
    for pid, k, s, c in rows:
        f.write(f'| {pid}-{k} | {s} | {c} |\n')
print(len(rows), 'rows')
